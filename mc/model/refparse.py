"""Reference parser: a precedence-climbing (Pratt) parser written from the published grammar
and operator table (frozen copy in grammar.py), producing a *neutral tree* of nested tuples.

Operator table (low to high):  or 3 < and 4 < comparisons / in / not in 5 (non-associative)
< + - 6 < * / 7 < ** 8 (right) < pipe 9 < method 10 < not 11 < unary minus 12 < index 13.
Open-ended constructs (lambda body, else branch, condition, arguments, elements, entries,
slice bounds, right-hand sides) are parsed at level 0: they extend as far right as possible.

Neutral tree:
  ('code', [stmt...])                     empty statements dropped
  ('num', coeff, exp) ('str', s) ('const', True|False|None) ('name', n)
  ('bin', op, a, b) ('un', op, a) ('if', cond, a, b) ('lambda', [param...], body)
  ('call', fname, [arg...])               calls, method / pipe sugar, list literal -> 'list',
                                          `{}` -> 'dict', index / slice -> '__getitem__', ...
  ('dict', [(k, v)...]) ('slice', a, b, c)
  ('assign', n, e) ('short', n, op, e)
"""
from . import reflex

NONE = ('const', None)

BIN = {
    'OR': (3, 'left', 'or'), 'AND': (4, 'left', 'and'),
    'EQ': (5, 'non', '=='), 'NE': (5, 'non', '!='), 'GT': (5, 'non', '>'), 'LT': (5, 'non', '<'),
    'GTE': (5, 'non', '>='), 'LTE': (5, 'non', '<='), 'IN': (5, 'non', 'in'),
    'PLUS': (6, 'left', '+'), 'MINUS': (6, 'left', '-'),
    'TIMES': (7, 'left', '*'), 'DIVIDE': (7, 'left', '/'),
    'POWER': (8, 'right', '**'),
}
L_PIPE, L_DOT, L_NOT, L_UMINUS, L_INDEX = 9, 10, 11, 12, 13


class Dead(Exception):
    """Syntax error at token index `at` (len(tokens) = end of input)."""

    def __init__(self, at):
        Exception.__init__(self, f'dead at {at}')
        self.at = at


class Reserved(Exception):
    def __init__(self, at, word):
        Exception.__init__(self, f'reserved {word}')
        self.at = at
        self.word = word


class P:
    def __init__(self, toks, paren_single_lambda=True):
        self.t = toks
        self.i = 0
        self.n = len(toks)
        # the frozen grammar derives `( NAME ) => e`
        self.paren_single_lambda = paren_single_lambda

    def peek(self):
        return self.t[self.i][0] if self.i < self.n else None

    def peek2(self):
        return self.t[self.i + 1][0] if self.i + 1 < self.n else None

    def take(self, typ):
        if self.peek() != typ:
            raise Dead(self.i)
        self.i += 1
        return self.t[self.i - 1]

    # ---------------------------------------------------------------- statements
    def code(self):
        lines = []
        while True:
            st = self.statement()
            if st is not None:
                lines.append(st)
            if self.peek() == 'NEWLINE':
                self.i += 1
                continue
            if self.peek() is None:
                return ('code', lines)
            raise Dead(self.i)

    def statement(self):
        k = self.peek()
        if k is None or k == 'NEWLINE':
            return None
        if k == 'DEL':
            self.i += 1
            e, bare = self.expr(0)
            if not (bare == 'index'):
                raise Dead(self.i)
            # the statement ends here; anything that could continue an expression has been consumed
            return ('call', '__delitem__', [e[2][0], e[2][1]])
        if k == 'NAME' and self.peek2() in ('ASSIGN', 'SHORT_OP'):
            name = self.t[self.i][1]
            op = self.t[self.i + 1]
            self.i += 2
            rhs, _ = self.expr(0)
            if op[0] == 'ASSIGN':
                return ('assign', name, rhs)
            return ('short', name, op[1], rhs)
        e, bare = self.expr(0)
        k = self.peek()
        if k in ('ASSIGN', 'SHORT_OP'):
            if bare != 'index':
                raise Dead(self.i)
            op = self.t[self.i]
            self.i += 1
            rhs, _ = self.expr(0)
            if op[0] == 'ASSIGN':
                return ('call', '__setitem__', [e[2][0], e[2][1], rhs])
            return ('call', '__setitem_with_op__', [e[2][0], e[2][1], ('str', op[1]), rhs])
        return e

    # ---------------------------------------------------------------- expressions
    def expr(self, minlevel):
        """Parse an expression whose operators all have level >= minlevel.
        Returns (tree, bare) where bare is 'index' if the tree is an unparenthesised plain
        (non-slice) index node at the top, 'name' for a single NAME token, else None."""
        left, bare = self.prefix()
        while True:
            k = self.peek()
            if k == 'LBRACKET':
                # level 13 - always binds
                left, bare = self.index(left)
                continue
            if k == 'DOT':
                if L_DOT < minlevel:
                    return left, bare
                self.i += 1
                name = self.take('NAME')[1]
                self.take('LPAREN')
                args = self.args('RPAREN', allow_empty=True)
                left, bare = ('call', name, [left] + args), None
                continue
            if k == 'PIPE':
                if L_PIPE < minlevel:
                    return left, bare
                self.i += 1
                name = self.take('NAME')[1]
                if self.peek() == 'LPAREN':
                    self.i += 1
                    # the grammar has no `e | f ( )`
                    args = self.args('RPAREN', allow_empty=False)
                else:
                    args = []
                left, bare = ('call', name, [left] + args), None
                continue
            if k == 'IF':
                if minlevel > 0:
                    return left, bare
                self.i += 1
                cond, _ = self.expr(0)
                self.take('ELSE')
                other, _ = self.expr(0)
                left, bare = ('if', cond, left, other), None
                continue
            if k == 'NOT' or k in BIN:
                if k == 'NOT':
                    level, assoc, op = 5, 'non', 'not in'
                else:
                    level, assoc, op = BIN[k]
                if level < minlevel:
                    return left, bare
                if k == 'NOT':
                    self.i += 1
                    self.take('IN')
                else:
                    self.i += 1
                right, _ = self.expr(level if assoc == 'right' else level + 1)
                left, bare = ('bin', op, left, right), None
                if assoc == 'non':
                    nk = self.peek()
                    if nk == 'NOT' or (nk in BIN and BIN[nk][0] == level):
                        if level >= minlevel:
                            raise Dead(self.i)
                continue
            return left, bare

    def index(self, base):
        self.take('LBRACKET')
        k = self.peek()
        if k == 'COLON':
            self.i += 1
            if self.peek() == 'RBRACKET':                 # [:]
                sl = ('slice', NONE, NONE, NONE)
            elif self.peek() == 'COLON':                  # [::e]
                self.i += 1
                e, _ = self.expr(0)
                sl = ('slice', NONE, NONE, e)
            else:
                e, _ = self.expr(0)
                if self.peek() == 'COLON':                # [:e:]
                    self.i += 1
                sl = ('slice', NONE, e, NONE)             # [:e]
            self.take('RBRACKET')
            return ('call', '__getitem__', [base, sl]), None
        e, _ = self.expr(0)
        if self.peek() == 'RBRACKET':
            self.i += 1
            return ('call', '__getitem__', [base, e]), 'index'
        self.take('COLON')
        if self.peek() == 'RBRACKET':                     # [e:]
            sl = ('slice', e, NONE, NONE)
        elif self.peek() == 'COLON':                      # [e::]
            self.i += 1
            sl = ('slice', e, NONE, NONE)
        else:                                             # [e:e]
            e2, _ = self.expr(0)
            sl = ('slice', e, e2, NONE)
        self.take('RBRACKET')
        return ('call', '__getitem__', [base, sl]), None

    def args(self, closer, allow_empty):
        """expr (, expr)* [,] closer  - after the opener has been consumed."""
        out = []
        if self.peek() == closer:
            if not allow_empty:
                raise Dead(self.i)
            self.i += 1
            return out
        while True:
            e, _ = self.expr(0)
            out.append(e)
            if self.peek() == 'COMMA':
                self.i += 1
                if self.peek() == closer:
                    self.i += 1
                    return out
                continue
            self.take(closer)
            return out

    def prefix(self):
        if self.i >= self.n:
            raise Dead(self.i)
        typ, val = self.t[self.i][0], self.t[self.i][1]
        if typ == 'NUMBER':
            self.i += 1
            return ('num', val[0], val[1]), None
        if typ == 'STRING':
            self.i += 1
            return ('str', val), None
        if typ == 'TRUE':
            self.i += 1
            return ('const', True), None
        if typ == 'FALSE':
            self.i += 1
            return ('const', False), None
        if typ == 'NONE':
            self.i += 1
            return NONE, None
        if typ in reflex.RESERVED_UNUSED:
            raise Reserved(self.i, val)
        if typ == 'NAME':
            nxt = self.peek2()
            if nxt == 'LPAREN':
                self.i += 2
                return ('call', val, self.args('RPAREN', allow_empty=True)), None
            if nxt == 'LAMBDA':
                self.i += 2
                body, _ = self.expr(0)
                return ('lambda', [('name', val)], body), None
            self.i += 1
            return ('name', val), 'name'
        if typ == 'MINUS':
            self.i += 1
            e, _ = self.expr(L_UMINUS)
            return ('un', '-', e), None
        if typ == 'NOT':
            self.i += 1
            e, _ = self.expr(L_NOT)
            return ('un', 'not', e), None
        if typ == 'LPAREN':
            self.i += 1
            first, bare = self.expr(0)
            if self.peek() == 'RPAREN':
                self.i += 1
                if bare == 'name' and self.peek() == 'LAMBDA' and self.paren_single_lambda:
                    self.i += 1
                    body, _ = self.expr(0)
                    return ('lambda', [first], body), None
                return first, None
            params = [first]
            while True:
                self.take('COMMA')
                e, bare = self.expr(0)
                params.append(e)
                if self.peek() == 'RPAREN':
                    if bare != 'name':
                        raise Dead(self.i)
                    self.i += 1
                    self.take('LAMBDA')
                    body, _ = self.expr(0)
                    return ('lambda', params, body), None
        if typ == 'LBRACKET':
            self.i += 1
            return ('call', 'list', self.args('RBRACKET', allow_empty=True)), None
        if typ == 'LBRACE':
            self.i += 1
            if self.peek() == 'RBRACE':
                self.i += 1
                return ('call', 'dict', []), None
            items = []
            while True:
                k, _ = self.expr(0)
                self.take('COLON')
                v, _ = self.expr(0)
                items.append((k, v))
                if self.peek() == 'COMMA':
                    self.i += 1
                    if self.peek() == 'RBRACE':
                        self.i += 1
                        return ('dict', items), None
                    continue
                self.take('RBRACE')
                return ('dict', items), None
        raise Dead(self.i)


def parse_tokens(toks, **kw):
    return P(toks, **kw).code()


def parse(text, **kw):
    """-> ('ok', tree) | ('dead', token_index, ntokens) | ('reserved', word) | ('lex', pos, ch)"""
    try:
        toks = reflex.tokens(text)
    except reflex.LexError as e:
        # the real parser pulls tokens lazily: a syntax error before the illegal character wins
        try:
            parse_tokens(e.tokens, **kw)
        except Dead as d:
            if d.at < len(e.tokens):
                return ('dead', d.at, e.tokens)
        except Reserved as r:
            return ('reserved', r.word, r.at)
        return ('lex', e.pos, e.ch)
    try:
        return ('ok', parse_tokens(toks, **kw))
    except Dead as d:
        return ('dead', d.at, toks)
    except Reserved as r:
        return ('reserved', r.word, r.at)
