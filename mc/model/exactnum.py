"""Exact rational reference for SmartQuery number arithmetic (C08, C07): integers only, no `decimal`.

A literal denotes Fraction(text).  An arithmetic operation returns the exact rational result
rounded half-even to PREC significant digits.
"""
from fractions import Fraction

PREC = 28


class NumError(Exception):
    pass


def literal(text):
    return Fraction(text)


def digits_of(n):
    """Number of decimal digits of a positive integer."""
    return len(str(n))


def round_sig(fr, prec=PREC):
    """Round a Fraction half-even to `prec` significant decimal digits."""
    if fr == 0:
        return Fraction(0)
    sign = -1 if fr < 0 else 1
    a = -fr if fr < 0 else fr
    # find e with 10^(prec-1) <= a / 10^e < 10^prec
    ip = a.numerator // a.denominator
    if ip > 0:
        e = digits_of(ip) - prec
    else:
        # a < 1: count leading zeros after the point
        inv = a.denominator // a.numerator          # floor(1/a) >= 1
        e = -(digits_of(inv) - 1) - prec            # first guess
    # adjust (the guesses are within one of the truth)
    while True:
        scaled = a / Fraction(10) ** e if e < 0 else a / (Fraction(10) ** e)
        if scaled >= Fraction(10) ** prec:
            e += 1
        elif scaled < Fraction(10) ** (prec - 1):
            e -= 1
        else:
            break
    q = scaled.numerator // scaled.denominator
    rem = scaled - q
    half = Fraction(1, 2)
    if rem > half or (rem == half and q % 2 == 1):
        q += 1
    return sign * q * Fraction(10) ** e


def add(a, b):
    return round_sig(a + b)


def sub(a, b):
    return round_sig(a - b)


def mul(a, b):
    return round_sig(a * b)


def div(a, b):
    if b == 0:
        raise NumError('division by zero')
    return round_sig(a / b)


def neg(a):
    return round_sig(-a)


def floor(a):
    return a.numerator // a.denominator


def ceil(a):
    return -((-a.numerator) // a.denominator)


def trunc(a):
    return floor(a) if a >= 0 else ceil(a)


def round_candidates(a, nd):
    """The multiples of 10^-nd nearest to a (two on an exact tie)."""
    scale = Fraction(10) ** nd
    x = a * scale
    lo = x.numerator // x.denominator
    rem = x - lo
    half = Fraction(1, 2)
    if rem < half:
        return {Fraction(lo) / scale}
    if rem > half:
        return {Fraction(lo + 1) / scale}
    return {Fraction(lo) / scale, Fraction(lo + 1) / scale}
