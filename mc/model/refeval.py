"""Reference interpreter for SmartQuery over neutral trees (mc/model/refparse.py), written from the
property statements: Python semantics over exact decimals (28 significant digits, half-even),
string-on-the-left concatenation coercion, decimal-to-integer index casts, key-to-string dict
casts, dynamically scoped lambdas with positional parameters, statements yielding None, the last
line giving the result; one operation charged per syntax-tree node evaluation.

The model is PARTIAL on purpose: where the statements do not define a result it raises Undefined
and the case is not compared.  No `decimal`, nothing imported from smartquery.

Values: Num (exact rational + decimal representation when known), str, bool, None, list, dict
(str keys), tuple, Closure, Builtin.
"""
from fractions import Fraction

from . import exactnum as X

PREC = 28


class Undefined(Exception):
    """The statements do not define the behaviour (ill-typed operands, unmodelled builtin ...)."""


class PErr(Exception):
    """A language-level failure: the real evaluator must raise ParserError."""


class OtherErr(Exception):
    """A failure that is not language-level (e.g. division by zero): any non-ParserError exception."""


class LimitErr(PErr):
    pass


class Num:
    """Exact number. (coeff, exp) is the decimal representation (sign in `neg`) when known."""
    __slots__ = ('v', 'neg', 'coeff', 'exp', 'plain')

    def __init__(self, v, neg=None, coeff=None, exp=None):
        self.v = Fraction(v)
        self.neg = neg
        self.coeff = coeff
        self.exp = exp
        # `plain`: the number is known to print the same inside a container as on its own (literals, host numbers,
        # results of int / round / floor / ceil / abs / len); results of arithmetic are library-internal objects whose
        # rendering inside str(list) the statements do not define
        self.plain = False

    @staticmethod
    def triple(neg, coeff, exp):
        v = Fraction(coeff) * Fraction(10) ** exp
        return Num(-v if neg else v, neg, coeff, exp)

    @staticmethod
    def of_int(i):
        n = Num.triple(i < 0, abs(i), 0)
        n.plain = True
        return n

    def known(self):
        return self.coeff is not None

    def text(self):
        """str() of the number, by the decimal to-scientific-string rules; None if unknown."""
        if self.coeff is None:
            return None
        digits = str(self.coeff)
        exp = self.exp
        leftdigits = exp + len(digits)
        if exp <= 0 and leftdigits > -6:
            dotplace = leftdigits
        else:
            dotplace = 1
        if dotplace <= 0:
            intpart = '0'
            fracpart = '.' + '0' * (-dotplace) + digits
        elif dotplace >= len(digits):
            intpart = digits + '0' * (dotplace - len(digits))
            fracpart = ''
        else:
            intpart = digits[:dotplace]
            fracpart = '.' + digits[dotplace:]
        if leftdigits == dotplace:
            e = ''
        else:
            e = 'E%+d' % (leftdigits - dotplace)
        return ('-' if self.neg else '') + intpart + fracpart + e

    def __repr__(self):
        return f'Num({self.text() or self.v})'


def plain(n):
    n.plain = True
    return n


def num_literal(coeff, exp):
    return plain(Num.triple(False, coeff, exp))


def _round_triple(neg, coeff, exp):
    """Round a coefficient to PREC digits, half-even."""
    d = len(str(coeff))
    if d <= PREC:
        return neg, coeff, exp
    cut = d - PREC
    q, r = divmod(coeff, 10 ** cut)
    half = 10 ** cut // 2
    if r > half or (r == half and q % 2 == 1):
        q += 1
    exp += cut
    if len(str(q)) > PREC:      # 999..9 rounded up
        q //= 10
        exp += 1
    return neg, q, exp


def n_add(a, b, sub=False):
    if a.known() and b.known():
        bs = (not b.neg) if sub else b.neg
        exp = min(a.exp, b.exp)
        x = (-1 if a.neg else 1) * a.coeff * 10 ** (a.exp - exp)
        y = (-1 if bs else 1) * b.coeff * 10 ** (b.exp - exp)
        s = x + y
        if s == 0:
            neg = bool(a.neg and bs)
        else:
            neg = s < 0
        return Num.triple(*_round_triple(neg, abs(s), exp))
    return Num(X.sub(a.v, b.v) if sub else X.add(a.v, b.v))


def n_mul(a, b):
    if a.known() and b.known():
        return Num.triple(*_round_triple(a.neg != b.neg, a.coeff * b.coeff, a.exp + b.exp))
    return Num(X.mul(a.v, b.v))


def n_div(a, b):
    if b.v == 0:
        raise OtherErr('division by zero')
    q = X.div(a.v, b.v)
    if a.known() and b.known():
        ideal = a.exp - b.exp
        exact = a.v / b.v
        if exact == q:
            # exact: exponent as close to the ideal as possible
            e = ideal
            for _ in range(60):
                c = abs(exact) / Fraction(10) ** e
                if c.denominator == 1 and len(str(c.numerator)) <= PREC:
                    return Num.triple(a.neg != b.neg, c.numerator, e)
                e -= 1
        else:
            # inexact: a full-precision coefficient
            e = ideal
            c = abs(q) / Fraction(10) ** e
            while c.denominator != 1 or len(str(c.numerator)) < PREC:
                e -= 1
                c = abs(q) / Fraction(10) ** e
                if e < ideal - 80:
                    return Num(q)
            if len(str(c.numerator)) == PREC:
                return Num.triple(a.neg != b.neg, c.numerator, e)
    return Num(q)


def n_neg(a):
    if a.known():
        if a.coeff == 0:
            return Num.triple(False, 0, a.exp)
        return Num.triple(*_round_triple(not a.neg, a.coeff, a.exp))
    return Num(X.neg(a.v))


def n_pow(a, b):
    if b.v.denominator == 1 and 0 <= b.v <= 64:
        n = int(b.v)
        if a.v == 0 and n == 0:
            raise OtherErr('0 ** 0')
        if a.known() and a.coeff != 0 and len(str(a.coeff ** n)) <= PREC and n >= 1:
            return Num.triple(bool(a.neg and n % 2), a.coeff ** n, a.exp * n)
        if n == 0:
            return Num.triple(False, 1, 0)
        r = a.v ** n
        if X.round_sig(r) == r:
            return Num(r)
    raise Undefined('power')


class Closure:
    def __init__(self, params, body):
        self.params = params
        self.body = body


class Builtin:
    def __init__(self, name):
        self.name = name


def truthy(v):
    if isinstance(v, Num):
        return v.v != 0
    if isinstance(v, (Closure, Builtin)):
        return True
    return bool(v)


def to_text(v):
    """str(v) as the language prints it; Undefined when unknown."""
    if v is None:
        return 'None'
    if v is True:
        return 'True'
    if v is False:
        return 'False'
    if isinstance(v, Num):
        t = v.text()
        if t is None:
            raise Undefined('text of a number whose representation the model does not track')
        return t
    if isinstance(v, str):
        return v
    if isinstance(v, (list, tuple, dict)):
        return repr_text(v)
    raise Undefined('text of a function')


def repr_text(v):
    """What str() shows for a value INSIDE a container: numbers as the language prints them, strings quoted as Python does."""
    if isinstance(v, str):
        return repr(v)
    if isinstance(v, list):
        return '[' + ', '.join(repr_text(x) for x in v) + ']'
    if isinstance(v, tuple):
        if len(v) == 1:
            return '(' + repr_text(v[0]) + ',)'
        return '(' + ', '.join(repr_text(x) for x in v) + ')'
    if isinstance(v, dict):
        return '{' + ', '.join(repr(k) + ': ' + repr_text(x) for k, x in v.items()) + '}'
    if isinstance(v, (Closure, Builtin)):
        raise Undefined('text of a function')
    if isinstance(v, Num) and not v.plain:
        raise Undefined('rendering of an arithmetic result inside a container')
    return to_text(v)


def eq(a, b):
    if isinstance(a, Num) and isinstance(b, Num):
        return a.v == b.v
    if isinstance(a, bool) or isinstance(b, bool):
        if isinstance(a, bool) and isinstance(b, bool):
            return a == b
        if isinstance(a, Num) or isinstance(b, Num):
            n, o = (a, b) if isinstance(a, Num) else (b, a)
            return n.v == int(o)
        return False
    if isinstance(a, Num) or isinstance(b, Num):
        return False
    if type(a) is not type(b):
        return False
    if isinstance(a, (list, tuple)):
        return len(a) == len(b) and all(eq(x, y) for x, y in zip(a, b))
    if isinstance(a, dict):
        return set(a) == set(b) and all(eq(a[k], b[k]) for k in a)
    if isinstance(a, (Closure, Builtin)):
        return a is b
    return a == b


def copy_value(v, memo=None):
    """Independent copy of a value; a container that occurs several times inside v occurs as ONE container in the copy."""
    if memo is None:
        memo = {}
    if isinstance(v, (list, dict)):
        if id(v) in memo:
            return memo[id(v)][0]
        if isinstance(v, list):
            out = []
            memo[id(v)] = (out, v)
            out.extend(copy_value(x, memo) for x in v)
        else:
            out = {}
            memo[id(v)] = (out, v)
            for k, x in v.items():
                out[k] = copy_value(x, memo)
        return out
    if isinstance(v, tuple):
        return tuple(copy_value(x, memo) for x in v)
    return v


def index_pos(seq, i):
    """Decimal-to-integer index cast + Python negative positions; None if out of range."""
    if isinstance(i, bool):
        p = int(i)
    elif isinstance(i, Num):
        p = X.trunc(i.v)
    else:
        raise Undefined('index type')
    n = len(seq)
    if -n <= p < n:
        return p
    return None


BUILTIN_NAMES = ['len', 'int', 'str', 'list', 'dict', 'keys', 'values', 'items', 'get', 'sum', 'min', 'max', 'abs', 'round', 'floor', 'ceil',
                 'push', 'pop', 'insert', 'remove', 'index_of', 'map', 'filter', 'reduce', 'sorted', 'reversed', 'enumerate', 'join',
                 'split', 'lower', 'upper', 'strip', 'startswith', 'endswith', 'replace', 'pretty', 'match', 'match_groups', 'match_all',
                 '__getitem__', '__setitem__', '__delitem__', '__setitem_with_op__']


class Machine:
    def __init__(self, host_names, budget=None, known_builtins=None):
        names = known_builtins if known_builtins is not None else BUILTIN_NAMES
        self.builtins = {n: Builtin(n) for n in names}
        self.unmodelled = set()
        self.scopes = [self.builtins, host_names]
        self.ops = 0
        self.budget = budget

    # ---------------------------------------------------------------- scoping
    def lookup(self, name):
        for sc in reversed(self.scopes):
            if name in sc:
                return sc[name]
        raise KeyError(name)

    def charge(self):
        self.ops += 1
        if self.budget is not None and self.ops >= self.budget:
            raise LimitErr('ops limit')

    # ---------------------------------------------------------------- evaluation
    def run(self, tree):
        return self.ev(tree)

    def ev(self, t):
        self.charge()
        k = t[0]
        if k == 'code':
            r = None
            for st in t[1]:
                r = self.ev(st)
            return r
        if k == 'num':
            return num_literal(t[1], t[2])
        if k == 'str':
            return t[1]
        if k == 'const':
            return t[1]
        if k == 'name':
            try:
                return self.lookup(t[1])
            except KeyError:
                raise PErr(f'undefined variable {t[1]}')
        if k == 'bin':
            return self.binop(t)
        if k == 'un':
            a = self.ev(t[2])
            if t[1] == 'not':
                return not truthy(a)
            if isinstance(a, Num):
                return n_neg(a)
            raise Undefined('negation of a non-number')
        if k == 'if':
            c = self.ev(t[1])
            return self.ev(t[2]) if truthy(c) else self.ev(t[3])
        if k == 'lambda':
            params = []
            for p in t[1]:
                if p[0] != 'name':
                    raise Undefined('non-name lambda parameter')
                params.append(p[1])
            return Closure(params, t[2])
        if k == 'dict':
            out = {}
            for kt, vt in t[1]:
                kv = self.ev(kt)
                vv = self.ev(vt)
                out[self.dict_key(kv)] = vv
            return out
        if k == 'slice':
            parts = [self.ev(x) for x in t[1:4]]
            out = []
            for p in parts:
                if p is None:
                    out.append(None)
                elif isinstance(p, Num):
                    out.append(X.trunc(p.v))
                elif isinstance(p, bool):
                    out.append(int(p))
                else:
                    raise Undefined('slice bound type')
            return ('slice', out[0], out[1], out[2])
        if k == 'assign':
            v = self.ev(t[2])
            self.scopes[-1][t[1]] = copy_value(v)
            return None
        if k == 'short':
            v = copy_value(self.ev(t[3]))
            try:
                cur = self.lookup(t[1])
            except KeyError:
                raise PErr(f'undefined variable {t[1]}')
            self.scopes[-1][t[1]] = self.arith(t[2][0], cur, v, compound=True)
            return None
        if k == 'call':
            args = [self.ev(a) for a in t[2]]
            try:
                f = self.lookup(t[1])
            except KeyError:
                raise PErr(f'undefined function {t[1]}')
            return self.call(f, args)
        if k == 'noop':
            return None
        raise Undefined(f'node {k}')

    def dict_key(self, k):
        if isinstance(k, (Closure, Builtin)):
            raise Undefined('function as dict key')
        return to_text(k)

    def binop(self, t):
        op = t[1]
        a = self.ev(t[2])
        if op == 'and':
            return self.ev(t[3]) if truthy(a) else a
        if op == 'or':
            return a if truthy(a) else self.ev(t[3])
        b = self.ev(t[3])
        if op in ('+', '-', '*', '/', '**'):
            return self.arith(op, a, b)
        if op == '==':
            return eq(a, b)
        if op == '!=':
            return not eq(a, b)
        if op in ('<', '>', '<=', '>='):
            if isinstance(a, Num) and isinstance(b, Num):
                x, y = a.v, b.v
            elif isinstance(a, str) and isinstance(b, str):
                x, y = a, b
            else:
                raise Undefined('ordering of mixed types')
            return {'<': x < y, '>': x > y, '<=': x <= y, '>=': x >= y}[op]
        if op in ('in', 'not in'):
            if isinstance(b, str):
                if not isinstance(a, str):
                    raise Undefined('non-string in string')
                r = a in b
            elif isinstance(b, list):
                r = any(eq(a, x) for x in b)
            elif isinstance(b, dict):
                if not isinstance(a, str):
                    raise Undefined('non-string key membership')
                r = a in b
            else:
                raise Undefined('membership in a scalar')
            return r if op == 'in' else not r
        raise Undefined(op)

    def arith(self, op, a, b, compound=False):
        if op == '+':
            if isinstance(a, str):
                if compound and not isinstance(b, str):
                    raise Undefined('compound += of a non-string to a string')
                return a + (b if isinstance(b, str) else to_text(b))
            if isinstance(a, Num) and isinstance(b, Num):
                return n_add(a, b)
            if isinstance(a, list) and isinstance(b, list):
                if len(a) + len(b) > 10000:
                    raise PErr('size')
                if compound:
                    a.extend(b)
                    return a
                return a + b
            raise Undefined('+ on these types')
        if isinstance(a, Num) and isinstance(b, Num):
            if op == '-':
                return n_add(a, b, sub=True)
            if op == '*':
                return n_mul(a, b)
            if op == '/':
                return n_div(a, b)
            if op == '**':
                return n_pow(a, b)
        if op == '*' and (not isinstance(a, (Num, bool)) or not isinstance(b, (Num, bool))):
            raise PErr('multiply non-numbers')
        raise Undefined(f'{op} on these types')

    # ---------------------------------------------------------------- calls
    def call(self, f, args):
        if isinstance(f, Closure):
            return self.apply(f, args)
        if isinstance(f, Builtin):
            return self.builtin(f.name, args)
        raise Undefined('calling a non-function')

    def apply(self, f, args):
        self.scopes.append(dict(zip(f.params, args)))
        try:
            return self.ev(f.body)
        finally:
            self.scopes.pop()

    def fn(self, f, *args):
        if isinstance(f, (Closure, Builtin)):
            return self.call(f, list(args))
        raise Undefined('callback is not a function')

    def builtin(self, name, a):
        n = len(a)
        if name == 'len' and n == 1 and isinstance(a[0], (str, list, dict, tuple)):
            return Num.of_int(len(a[0]))
        if name == 'str' and n == 1:
            return to_text(a[0])
        if name == 'int' and n == 1:
            if isinstance(a[0], Num):
                if abs(a[0].v) >= Fraction(10) ** 28:
                    return self.big_integral(a[0], X.trunc)
                return Num.of_int(X.trunc(a[0].v))
            if isinstance(a[0], bool):
                return Num.of_int(int(a[0]))
            if isinstance(a[0], str) and a[0].strip().lstrip('+-').isdigit() and a[0] == a[0].strip():
                return Num.of_int(int(a[0]))
            raise Undefined('int() of this')
        if name == 'list':
            return list(a)
        if name == 'dict' and n == 0:
            return {}
        if name == 'dict' and n == 1 and isinstance(a[0], dict):
            return dict(a[0])
        if name == 'keys' and n == 1 and isinstance(a[0], dict):
            return list(a[0].keys())
        if name == 'values' and n == 1 and isinstance(a[0], dict):
            return list(a[0].values())
        if name == 'items' and n == 1 and isinstance(a[0], dict):
            return [(k, v) for k, v in a[0].items()]
        if name == 'get' and n in (2, 3) and isinstance(a[0], dict):
            return a[0].get(self.dict_key(a[1]), a[2] if n == 3 else None)
        if name == 'sum' and n == 1 and isinstance(a[0], list):
            if not all(isinstance(x, Num) for x in a[0]):
                raise Undefined('sum of non-numbers')
            acc = Num.of_int(0)
            for x in a[0]:
                acc = n_add(acc, x)
            return acc
        if name in ('min', 'max'):
            seq = a[0] if n == 1 and isinstance(a[0], list) else (a if n >= 2 else None)
            if not seq or not all(isinstance(x, Num) for x in seq):
                raise Undefined('min/max of this')
            best = seq[0]
            for x in seq[1:]:
                if (x.v < best.v) if name == 'min' else (x.v > best.v):
                    best = x
            return best
        if name == 'abs' and n == 1 and isinstance(a[0], Num):
            x = a[0]
            if x.known():
                return plain(Num.triple(*_round_triple(False, x.coeff, x.exp)))
            return Num(X.round_sig(abs(x.v)))
        if name in ('floor', 'ceil') and n == 1 and isinstance(a[0], Num):
            if abs(a[0].v) >= Fraction(10) ** 28:
                return self.big_integral(a[0], X.floor if name == 'floor' else X.ceil)
            return Num.of_int(X.floor(a[0].v) if name == 'floor' else X.ceil(a[0].v))
        if name == 'round' and n in (1, 2) and isinstance(a[0], Num):
            nd = 0
            if n == 2:
                if not isinstance(a[1], Num):
                    raise Undefined('round digits')
                nd = X.trunc(a[1].v)
            c = X.round_candidates(a[0].v, nd)
            if len(c) != 1 or abs(nd) > 20 or abs(a[0].v) >= Fraction(10) ** 27:
                raise Undefined('round tie / range')
            return Num(next(iter(c)))
        if name == 'push' and n == 2 and isinstance(a[0], list):
            if len(a[0]) >= 10000:
                raise PErr('size')
            a[0].append(a[1])
            return None
        if name == 'pop' and n in (1, 2) and isinstance(a[0], list):
            if n == 1:
                if not a[0]:
                    raise PErr('pop from empty list')
                return a[0].pop()
            p = index_pos(a[0], a[1])
            if p is None:
                raise PErr('pop index out of range')
            return a[0].pop(p)
        if name == 'insert' and n == 3 and isinstance(a[0], list) and isinstance(a[1], (Num, bool)):
            if len(a[0]) >= 10000:
                raise PErr('size')
            a[0].insert(X.trunc(a[1].v) if isinstance(a[1], Num) else int(a[1]), a[2])
            return None
        if name == 'remove' and n == 2 and isinstance(a[0], list):
            for i, x in enumerate(a[0]):
                if eq(x, a[1]):
                    del a[0][i]
                    break
            return None
        if name == 'remove' and n == 2 and isinstance(a[0], dict) and isinstance(a[1], str):
            a[0].pop(a[1], None)
            return None
        if name == 'remove' and n == 2 and isinstance(a[0], dict) and (a[1] is None or isinstance(a[1], (bool, Num))):
            return None         # keys are strings: no key equals a number, a boolean or None (remove does not cast its argument)
        if name == 'index_of' and n == 2 and isinstance(a[0], list):
            for i, x in enumerate(a[0]):
                if eq(x, a[1]):
                    return Num.of_int(i)
            return None
        if name == 'map' and n == 2:
            if isinstance(a[0], (list, str)):
                return [self.fn(a[1], x) for x in a[0]]
            if isinstance(a[0], dict):
                # the entries are visited through the live mapping: a callback that adds or removes entries of the same dict ends
                # the walk with an error at the next step, one that replaces a later value is handed the new value
                out = []
                try:
                    for k, v in a[0].items():
                        out.append(self.fn(a[1], k, v))
                except RuntimeError:
                    raise OtherErr('dictionary changed size during iteration')
                return out
            raise PErr('map of a scalar')
        if name == 'filter' and n == 2:
            if isinstance(a[0], list):
                return [x for x in a[0] if truthy(self.fn(a[1], x))]
            raise PErr('filter of a non-list')
        if name == 'reduce' and n == 2 and isinstance(a[0], list) and a[0]:
            acc = a[0][0]
            for x in a[0][1:]:
                acc = self.fn(a[1], acc, x)
            return acc
        if name == 'sorted' and n in (1, 2, 3) and isinstance(a[0], list):
            keyf = a[1] if n >= 2 and a[1] is not None else None
            rev = truthy(a[2]) if n == 3 else False
            items = list(a[0])
            keys = [self.fn(keyf, x) if keyf is not None else x for x in items]
            if all(isinstance(k, Num) for k in keys):
                kk = [k.v for k in keys]
            elif all(isinstance(k, str) for k in keys):
                kk = keys
            else:
                raise Undefined('sorting mixed types')
            order = sorted(range(len(items)), key=lambda i: kk[i], reverse=rev)
            return [items[i] for i in order]
        if name == 'reversed' and n == 1 and isinstance(a[0], (list, str)):
            return a[0][::-1] if isinstance(a[0], str) else list(reversed(a[0]))
        if name == 'enumerate' and n == 1 and isinstance(a[0], (list, str)):
            return [(Num.of_int(i), x) for i, x in enumerate(a[0])]
        if name == 'join' and n in (1, 2) and isinstance(a[0], list):
            sep = a[1] if n == 2 else '\n'
            if not isinstance(sep, str):
                raise Undefined('join separator')
            return sep.join(to_text(x) for x in a[0])
        if name == 'split' and n in (1, 2) and isinstance(a[0], str):
            sep = a[1] if n == 2 else ' '
            if not isinstance(sep, str) or sep == '':
                raise Undefined('split separator')
            return a[0].split(sep)
        if name in ('lower', 'upper') and n == 1 and isinstance(a[0], str):
            return a[0].lower() if name == 'lower' else a[0].upper()
        if name == 'strip' and n in (1, 2) and isinstance(a[0], str) and (n == 1 or isinstance(a[1], str)):
            return a[0].strip() if n == 1 else a[0].strip(a[1])
        if name in ('startswith', 'endswith') and n == 2 and isinstance(a[0], str) and isinstance(a[1], str):
            return a[0].startswith(a[1]) if name == 'startswith' else a[0].endswith(a[1])
        if name == 'replace' and n == 3 and all(isinstance(x, str) for x in a):
            return a[0].replace(a[1], a[2])
        if name == 'pretty' and n in (1, 2):
            v = a[0]
            sep = a[1] if n == 2 else None
            if sep is not None and not isinstance(sep, str):
                raise Undefined('pretty separator')
            if isinstance(v, dict):
                return ('\n' if sep is None else sep).join(f'{k}: {to_text(x)}' for k, x in v.items())
            if isinstance(v, list):
                return (', ' if sep is None else sep).join(to_text(x) for x in v)
            if isinstance(v, Num):
                t = to_text(v)
                if not t.lstrip('-').isdigit():
                    raise Undefined('pretty of a non-integer number')
                body = t.lstrip('-')
                if len(body) < 5:
                    return t
                chunks = []
                while body:
                    chunks.insert(0, body[-3:])
                    body = body[:-3]
                return ('-' if t.startswith('-') else '') + (' ' if sep is None else sep).join(chunks)
            return to_text(v)
        if name in ('match', 'match_groups', 'match_all') and n in (2, 3) and isinstance(a[0], str) and isinstance(a[1], str):
            import re
            if not set(a[1]) <= set('abehlLxy|()[]-+*?^$.0123456789 z'):
                raise Undefined('pattern outside the modelled alphabet')
            fl = 0
            if n == 3:
                if a[2] is None or a[2] == '':
                    fl = 0
                elif isinstance(a[2], str) and set(a[2].lower()) <= set('ims'):
                    for ch in a[2].lower():
                        fl |= {'i': re.I, 'm': re.M, 's': re.S}[ch]
                else:
                    raise Undefined('flags')
            try:
                if name == 'match_all':
                    r = re.findall(a[1], a[0], fl)
                    return [tuple(x) if isinstance(x, tuple) else x for x in r]
                m = re.search(a[1], a[0], fl)
            except re.error:
                raise Undefined('bad pattern')
            if m is None:
                return None
            if name == 'match':
                return m.group(0)
            return [m.group(0)] + list(m.groups())
        if name == '__getitem__' and n == 2:
            return self.getitem(a[0], a[1])
        if name == '__setitem__' and n == 3:
            c, k, v = a
            if isinstance(c, dict):
                if len(c) >= 10000:
                    raise PErr('size')
                c[self.dict_key(k)] = copy_value(v)
                return ('STATEMENT-VALUE', v)
            if isinstance(c, list):
                if len(c) >= 10000:
                    raise PErr('size')
                p = index_pos(c, k)
                if p is None:
                    raise OtherErr('index assignment out of range')
                c[p] = copy_value(v)
                return ('STATEMENT-VALUE', v)
            raise Undefined('index assignment on a scalar')
        if name == '__setitem_with_op__' and n == 4:
            c, k, op, v = a
            cur = self.getitem(c, k)
            new = self.arith(op[0], cur, copy_value(v), compound=True)
            if isinstance(c, dict):
                c[self.dict_key(k)] = new
            else:
                c[index_pos(c, k)] = new
            return ('STATEMENT-VALUE', v)
        if name == '__delitem__' and n == 2:
            c, k = a
            if isinstance(c, dict):
                c.pop(self.dict_key(k), None)
                return None
            if isinstance(c, list):
                p = index_pos(c, k)
                if p is None:
                    raise Undefined('del out of range')
                del c[p]
                return None
            raise Undefined('del on a scalar')
        self.unmodelled.add(name)
        raise Undefined(f'builtin {name}/{n}')

    def big_integral(self, x, f):
        """int / floor / ceil of a number of 29+ integer digits: an integer held with a positive exponent stays as it is,
        anything with digits after the point is converted exactly."""
        if not x.known():
            raise Undefined('representation unknown')
        if x.exp > 0:
            return x
        return Num.of_int(f(x.v))

    def getitem(self, c, k):
        if isinstance(k, tuple) and k and k[0] == 'slice':
            if isinstance(c, (list, str)):
                if k[3] == 0:
                    raise OtherErr('slice step zero')
                return c[slice(k[1], k[2], k[3])]
            raise Undefined('slice of this')
        if isinstance(c, dict):
            key = self.dict_key(k)
            if key not in c:
                raise PErr('missing key')
            return c[key]
        if isinstance(c, (list, str, tuple)):
            p = index_pos(c, k)
            if p is None:
                raise PErr('index out of range')
            return c[p]
        raise Undefined('indexing a scalar')
