"""Reference lexer for SmartQuery, written from the language definition (not imported from
smartquery, no `decimal`).  Produces (type, value, pos, text) tuples.

Token classes (DESIGN.md 4/C06, C18):
  blanks and tabs separate tokens; `#` starts a comment that runs to the end of the line;
  CRLF / LF / `;` are statement separators - `;` always, line ends only at bracket depth 0;
  strings: optional r prefix, single or double quotes, no raw line feed, backslash escapes one
  character; non-raw strings translate \\n \\t \\' \\" (in that order, textually);
  numbers: digits with an optional fraction (digits '.' digits), value exact;
  names: %...% (no line feed inside, shortest match) or a word starting with a non-digit word
  character; keywords are names with a reserved spelling;
  operators: longest of  += -= *= /= ** == != >= <= =>  then single characters.
"""
import unicodedata

KEYWORDS = {
    'and': 'AND', 'or': 'OR', 'in': 'IN', 'not': 'NOT', 'if': 'IF', 'else': 'ELSE',
    'True': 'TRUE', 'False': 'FALSE', 'None': 'NONE', 'del': 'DEL',
    'for': 'FOR', 'while': 'WHILE', 'break': 'BREAK', 'continue': 'CONTINUE',
    'def': 'DEF', 'raise': 'RAISE', 'elif': 'ELIF',
}
RESERVED_UNUSED = {'FOR', 'WHILE', 'BREAK', 'CONTINUE', 'DEF', 'RAISE', 'ELIF'}

OP2 = {'+=': 'SHORT_OP', '-=': 'SHORT_OP', '*=': 'SHORT_OP', '/=': 'SHORT_OP', '**': 'POWER',
       '==': 'EQ', '!=': 'NE', '>=': 'GTE', '<=': 'LTE', '=>': 'LAMBDA'}
OP1 = {'=': 'ASSIGN', '>': 'GT', '<': 'LT', '+': 'PLUS', '-': 'MINUS', '*': 'TIMES', '/': 'DIVIDE',
       ',': 'COMMA', '.': 'DOT', '|': 'PIPE', ':': 'COLON',
       '(': 'LPAREN', ')': 'RPAREN', '[': 'LBRACKET', ']': 'RBRACKET', '{': 'LBRACE', '}': 'RBRACE'}
OPEN = {'LPAREN', 'LBRACKET', 'LBRACE'}
CLOSE = {'RPAREN', 'RBRACKET', 'RBRACE'}


class LexError(Exception):
    def __init__(self, pos, ch, tokens):
        Exception.__init__(self, f'illegal character {ch!r} at {pos}')
        self.pos = pos
        self.ch = ch
        self.tokens = tokens    # tokens produced before the illegal character


def _word(ch):
    return ch == '_' or ch.isalnum()


def _digit(ch):
    return ch.isdecimal()


def _scan_string(s, i):
    """Return end index (exclusive) of a string literal starting at i (at the quote), or -1."""
    q = s[i]
    j = i + 1
    n = len(s)
    while j < n:
        c = s[j]
        if c == q:
            return j + 1
        if c == '\n':
            return -1
        if c == '\\':
            if j + 1 < n and s[j + 1] != '\n':
                j += 2
                continue
            return -1
        j += 1
    return -1


def _unescape(body):
    return body.replace('\\n', '\n').replace('\\t', '\t').replace("\\'", "'").replace('\\"', '"')


def number_value(text):
    """Exact value of a NUMBER lexeme as (coefficient, exponent)."""
    if '.' in text:
        a, b = text.split('.')
    else:
        a, b = text, ''
    coeff = 0
    for ch in a + b:
        coeff = coeff * 10 + unicodedata.decimal(ch)
    return (coeff, -len(b))


def tokens(s):
    """Tokenise; raises LexError (carrying the tokens seen so far)."""
    out = []
    i = 0
    n = len(s)
    depth = 0
    while i < n:
        c = s[i]
        if c == ' ' or c == '\t':
            i += 1
            continue
        if c == '\r' and i + 1 < n and s[i + 1] == '\n':
            if depth == 0:
                out.append(('NEWLINE', '\r\n', i, '\r\n'))
            i += 2
            continue
        if c == '\n':
            if depth == 0:
                out.append(('NEWLINE', '\n', i, '\n'))
            i += 1
            continue
        if c == ';':
            out.append(('NEWLINE', ';', i, ';'))
            i += 1
            continue
        if c in '([{':
            depth += 1
            out.append((OP1[c], c, i, c))
            i += 1
            continue
        if c in ')]}':
            depth -= 1
            out.append((OP1[c], c, i, c))
            i += 1
            continue
        # strings (with optional raw prefix) come before numbers and names
        if c == '"' or c == "'":
            e = _scan_string(s, i)
            if e > 0:
                out.append(('STRING', _unescape(s[i + 1:e - 1]), i, s[i:e]))
                i = e
                continue
            raise LexError(i, c, out)
        if c == 'r' and i + 1 < n and s[i + 1] in '"\'':
            e = _scan_string(s, i + 1)
            if e > 0:
                out.append(('STRING', s[i + 2:e - 1], i, s[i:e]))
                i = e
                continue
            # falls through: `r` is then a name
        if _digit(c):
            j = i + 1
            while j < n and _digit(s[j]):
                j += 1
            if j + 1 < n and s[j] == '.' and _digit(s[j + 1]):
                j += 2
                while j < n and _digit(s[j]):
                    j += 1
            out.append(('NUMBER', number_value(s[i:j]), i, s[i:j]))
            i = j
            continue
        if c == '%':
            j = i + 1
            while j < n and s[j] != '%' and s[j] != '\n':
                j += 1
            if j < n and s[j] == '%':
                text = s[i:j + 1]
                out.append((KEYWORDS.get(text, 'NAME'), text, i, text))
                i = j + 1
                continue
            raise LexError(i, c, out)
        if _word(c):
            j = i + 1
            while j < n and _word(s[j]):
                j += 1
            text = s[i:j]
            out.append((KEYWORDS.get(text, 'NAME'), text, i, text))
            i = j
            continue
        if c == '#':
            j = i
            while j < n and s[j] != '\n':
                j += 1
            i = j
            continue
        two = s[i:i + 2]
        if two in OP2:
            out.append((OP2[two], two, i, two))
            i += 2
            continue
        if c in OP1:
            out.append((OP1[c], c, i, c))
            i += 1
            continue
        raise LexError(i, c, out)
    return out


def names(s):
    """Identifiers in source order; (list, error_or_None)."""
    try:
        toks = tokens(s)
        err = None
    except LexError as e:
        toks = e.tokens
        err = e
    return [t[1] for t in toks if t[0] == 'NAME'], err


def line_of(s, pos):
    """1-based physical line of offset pos (lines end with LF)."""
    return 1 + s.count('\n', 0, pos)
