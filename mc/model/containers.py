"""Reference models of SmartQuery lists and dicts (C14): a Python list / an insertion-ordered
list of (key, value) pairs plus the two cast rules of the language:
  * a numeric index addresses the integer position obtained by truncation toward zero;
    negative positions count from the end;
  * a dict key is normalised to the string the language prints for it.
Results: ('val', v) | ('err', strict)   strict=True: the statement demands a ParserError.
No `decimal`, nothing imported from smartquery.
"""
from fractions import Fraction

UNCHANGED = object()


def trunc_index(i):
    """i: bool | int | Fraction -> Python int position (truncation toward zero)."""
    if isinstance(i, bool):
        return int(i)
    if isinstance(i, int):
        return i
    return int(i)          # Fraction.__int__ truncates toward zero


def key_text(k):
    """String the language prints for a scalar key. Numbers are given as their decimal text."""
    if isinstance(k, tuple) and k[0] == 'num':
        return k[1]
    if k is None:
        return 'None'
    if k is True:
        return 'True'
    if k is False:
        return 'False'
    if isinstance(k, int):
        return str(k)
    if isinstance(k, float):
        return repr(k)
    return k


class ListModel:
    def __init__(self, items):
        self.v = list(items)

    def snapshot(self):
        return tuple(self.v)

    def _pos(self, i):
        p = trunc_index(i)
        n = len(self.v)
        if -n <= p < n:
            return p
        return None

    def push(self, x):
        self.v.append(x)
        return ('val', None)

    def pop(self):
        if not self.v:
            return ('err', True)
        return ('val', self.v.pop())

    def popi(self, i):
        p = self._pos(i)
        if p is None:
            return ('err', False)
        return ('val', self.v.pop(p))

    def insert(self, i, x):
        self.v.insert(trunc_index(i), x)
        return ('val', None)

    def remove(self, x):
        if x in self.v:
            self.v.remove(x)
        return ('val', None)

    def read(self, i):
        p = self._pos(i)
        if p is None:
            return ('err', True)
        return ('val', self.v[p])

    def write(self, i, x):
        p = self._pos(i)
        if p is None:
            return ('err', False)
        self.v[p] = x
        return ('val', None)

    def cwrite(self, i, op, x):
        p = self._pos(i)
        if p is None:
            return ('err', False)
        cur = self.v[p]
        if cur is None:
            return ('err', False)
        self.v[p] = cur + x if op == '+=' else cur - x
        return ('val', None)

    def delete(self, i):
        p = self._pos(i)
        if p is None:
            return ('any', None)        # nothing removed; silent or error - not specified
        del self.v[p]
        return ('val', None)

    def index_of(self, x):
        return ('val', self.v.index(x) if x in self.v else None)

    def length(self):
        return ('val', len(self.v))

    def contains(self, x):
        return ('val', x in self.v)

    def slice(self, a, b, c=None):
        def cv(z):
            return None if z is None else trunc_index(z)
        if c is not None and trunc_index(c) == 0:
            return ('err', False)
        return ('val', list(self.v[slice(cv(a), cv(b), cv(c))]))


class DictModel:
    def __init__(self, items):
        self.k = [k for k, _ in items]
        self.d = {k: v for k, v in items}

    def snapshot(self):
        return tuple((k, self.d[k]) for k in self.k)

    def read(self, k):
        k = key_text(k)
        if k not in self.d:
            return ('err', True)
        return ('val', self.d[k])

    def write(self, k, x):
        k = key_text(k)
        if k not in self.d:
            self.k.append(k)
        self.d[k] = x
        return ('val', None)

    def cwrite(self, k, op, x):
        k = key_text(k)
        if k not in self.d:
            return ('err', False)
        if self.d[k] is None:
            return ('err', False)
        self.d[k] = self.d[k] + x if op == '+=' else self.d[k] - x
        return ('val', None)

    def delete(self, k):
        k = key_text(k)
        if k in self.d:
            del self.d[k]
            self.k.remove(k)
            return ('val', None)
        return ('any', None)

    def get(self, k, default=None):
        k = key_text(k)
        return ('val', self.d.get(k, default))

    def keys(self):
        return ('val', list(self.k))

    def values(self):
        return ('val', [self.d[k] for k in self.k])

    def items(self):
        return ('val', [(k, self.d[k]) for k in self.k])

    def length(self):
        return ('val', len(self.k))

    def contains_str(self, k):
        return ('val', k in self.d)

    def remove_str(self, k):
        if k in self.d:
            del self.d[k]
            self.k.remove(k)
        return ('val', None)
