"""Regenerates MANIFEST.json from the table below:  /venv/bin/python -m mc.manifest_gen"""
import json
import os

VERIF = os.path.dirname(os.path.dirname(os.path.abspath(__file__)))
PY = '/venv/bin/python'

CHECKS = {
    'C06': dict(
        engine='E1+E2',
        technique='bounded exhaustive enumeration of token strings (prefix tree), character strings and sentences; '
                  'real LALR parser vs reference Pratt parser on every one',
        text='Every token string up to the stated length over two alphabets, every short character string and every '
             'sentence up to n constructor nodes (all parenthesisation subsets) is parsed by the real parser and by an '
             'independent reference parser; accept/reject and the neutral tree must agree. Complete within the bounds; '
             'nothing beyond them.',
        note='trusted: mc/model/reflex.py + refparse.py (written from the published grammar/operator table); '
             'soundness of both-dead pruning (online parsers)',
        design='4/C06'),
    'C16': dict(
        engine='E1+E2',
        technique='bounded exhaustive enumeration of strings, truncations and failing-leaf programs; exception class observed '
                  'on the real parse/eval/list_names, failing node identified by an external tracer',
        text='Every string of the token/character spaces and every truncation of every small sentence goes through parse, eval '
             'and list_names (also twice through a parser with a parse cache); every small sentence context gets each listed '
             'failure kind substituted at every leaf position, and when the tracer sees the failing node raise, the class must be '
             'ParserError; deep nesting is swept in subprocesses. Complete within the bounds.',
        note='trusted: reference lexer/parser decide which texts are not programs; tracer wraps Op.eval from outside',
        design='4/C16'),
    'C20': dict(
        engine='E1+E2',
        technique='bounded exhaustive enumeration of erroneous token strings and of stray-token / truncation / deletion variants '
                  'of laid-out programs; message checked against the reference parser\'s offending token and physical line',
        text='For every erroneous text in the enumerated spaces the reference parser names the first token that can not continue '
             'a program; the real message must contain that token and its physical line (or say end of input). Complete within '
             'the bounds (token strings, separators x multi-line bracket layouts x stray tokens at every position).',
        note='trusted: reference lexer/parser; message wording is free apart from token text, `line <n>` and an end-of-input phrase',
        design='4/C20'),
    'C15': dict(
        engine='E2',
        technique='bounded exhaustive enumeration of sentences x insignificant rewrites (all single rewrites at all positions, '
                  'all pairs for small sentences); real parse of the rewritten text vs reference tree of the original',
        text='Every statement up to n nodes is rendered faithfully (checked with the reference parser) and rewritten by every '
             'insignificant-layout rewrite at every position (blanks, tabs, comments, LF/CRLF inside brackets, separators and blank '
             'statements, trailing commas, redundant parentheses around every operand, call-form interchange) and by all pairs of '
             'rewrites for small statements; the real parser must return the original tree each time. Complete within the bounds.',
        note='trusted: reference parser (tree of the original); rewrites only add layout/commas/parentheses or change the call spelling',
        design='4/C15'),
    'C18': dict(
        engine='E1+E2',
        technique='bounded exhaustive enumeration of token/character strings and sentences; list_names vs reference lexer; '
                  'recording host mapping during eval under 6 valuations',
        text='For every text in the enumerated spaces list_names (asked twice) must equal the identifiers the reference lexer finds '
             '(error exactly on illegal characters); every name in the real tree must be listed; and every key an evaluation asks '
             'the (recording) host mapping for must be listed or be an implicit sugar name. Complete within the bounds.',
        note='trusted: reference lexer; the recording mapping sees exactly what ScopedDict asks a scope for',
        design='4/C18'),
    'C14': dict(
        engine='E3',
        technique='explicit-state BFS over container contents to a fixpoint of a finite domain; every operation executed through '
                  'real eval and on a reference list/dict model',
        text='All reachable contents of a list (length <= 4/5) and of a dict (<= 3/4 entries) over values {0,1,2} are explored; '
             'in every state every operation of a ~190 / ~250 operation alphabet (integer, decimal, negative, out-of-range, bool, '
             'host-int indices; string/number/bool/None/host keys; dict literals) is run on the real code (twice: language numbers, '
             'host ints) and on the model; result and resulting contents must agree. Fixpoint reached = complete for the domain.',
        note='trusted: mc/model/containers.py; a container has no hidden state beyond its ordered contents',
        design='4/C14'),
    'C12': dict(
        engine='E3',
        technique='explicit-state BFS over statement histories (assignments x mutations), replayed on fresh host objects, states '
                  'deduplicated on contents + alias partition; identity-disjointness invariant checked at every assignment node',
        text='Every history up to depth 3/4 over every assignment form x right-hand-side kind (host list/dict/tuple, sub-objects, '
             'literals containing host objects, builtin results, lambdas, variables) and mutations through reachable paths is executed '
             'on the real code in two modes (one eval per statement / one eval for all); at each assignment node an external tracer '
             'checks that nothing newly reachable from the assigned slot is shared with anything that existed before, after each '
             'eval that distinct names share no mutable object and that host objects only change by direct mutation.',
        note='trusted: identity-disjointness of lists/dicts (through tuples) is equivalent to isolation of mutations for plain data',
        design='4/C12'),
    'C13': dict(
        engine='E4',
        technique='exhaustive product: every non-mutator builtin found in FUNCTIONS x every argument tuple (arity 1-3) over a shape '
                  'alphabet, direct call and through eval in three syntaxes and mutator-on-result pipelines; deep before/after snapshot; every abort point (every budget, failing '
                  'callbacks) inside callback-taking builtins',
        text='Every non-mutating builtin (the table is read at run time, so a new builtin is included) is applied to every argument '
             'tuple of arity 1-3 over 17 value shapes and 5 lambdas, directly and through eval as f(a,..), a.f(..), a | f(..), and in '
             'pipelines that mutate the result of container-building builtins; a deep snapshot (contents + identity structure) of '
             'all arguments must be unchanged, and container builders must not return their argument. Calls that take a callback are also '
             'interrupted at every operation (every budget N) and by callbacks failing at their 2nd / 3rd invocation: the arguments must '
             'be unchanged then too. Complete within the product.',
        note='trusted: the snapshot function; the mutator list is the one in the property statement',
        design='4/C13'),
    'C03': dict(
        engine='E3',
        technique='explicit-state BFS over histories of growth-relevant statements from host containers of lengths around the cap, '
                  'states deduplicated on the (type, length) tree; length invariant on every node evaluation via an external tracer',
        text='From host list/dict/string of each length in {0,1,9998,9999,10000,10001}, every history up to depth 2/3 over ~450 '
             'statements (all operator / compound / index forms and every builtin x argument template that a dry run shows to return '
             'or mutate a container or string) is executed; every list/dict produced by any node evaluation or reachable afterwards must '
             'respect max(10000, longest host/literal length), and element-adding operations at the cap must raise ParserError and '
             'change nothing. Complete within the bounds; known findings listed in known_findings.json.',
        note='trusted: uniform contents abstraction (no length-changing path depends on element values); long containers are sampled '
             'at both ends when walking for nested containers',
        design='4/C03'),
    'C19': dict(
        engine='E5',
        technique='stateless exhaustive exploration of the answers of the random source (owned through a seam: scripted random.Random '
                  'subclass), horizon-bounded; range / membership / permutation oracle on every execution',
        text='The random source of the builtins is replaced from outside by a scripted source; for rand(), rand(a, b) over all '
             '-3 <= a <= b <= 4 and wide / 29-digit / 64-bit ranges in every numeric representation, rand(list) and shuffle(list) for all '
             'short lists, EVERY answer sequence of the source (all 2^k getrandbits answers for small k, boundary answers above, '
             'boundary floats) up to the horizon is executed; results must be in range / an element / a fresh permutation, and every '
             'value / element / permutation must be reachable.',
        note='trusted: CPython random.py derives randint/choice/shuffle from getrandbits()/random() of the source object',
        design='4/C19'),
    'C08': dict(
        engine='E2',
        technique='exhaustive enumeration of literal pairs / triples / builtin applications; real eval vs exact rational reference '
                  '(integer round-half-even to 28 digits)',
        text='Over a literal alphabet that includes every short decimal form and 27-30 digit tie-probing literals: every literal, all '
             'ordered pairs under + - * / and six comparisons, all triples of a subset under all operator pairs and tree shapes with '
             'unary minus, and floor/ceil/int/abs/round/min/max/sum on literals, negations, sums and quotients are evaluated and compared '
             'with Fraction arithmetic rounded half-even to 28 digits; failing arithmetic is run first in every task to expose leaked '
             'decimal-context state. Complete within the alphabets.',
        note='trusted: mc/model/exactnum.py (cross-checked against decimal on 900 operand pairs during development)',
        design='4/C08'),
    'C04': dict(
        engine='E4+E3',
        technique='exhaustive product of a numeric operand alphabet x every route to an arithmetic operation, then BFS over chains on '
                  'abstract values; type / digit-count / time invariant on every result',
        text='45 operands of every host-suppliable numeric type (incl. 2^200, 41-digit and huge-exponent Decimals, numeric strings, a '
             'string and lists) x 37 routes (operators, compound assignments in five target forms, numeric builtins, lambdas): all '
             'ordered pairs are executed, then chains of operations to depth 2/3 over abstract values; * ** *= must yield a <= 28-digit '
             'Decimal or raise, every numeric result must respect max(28, 1 + widest argument), nothing may repeat strings/lists, and '
             'no operation may run longer than 2 s (huge exponents in a killable child).',
        note='trusted: the digit-size measure stated in the evidence assumptions; watchdog timing (2 s, far above normal cost)',
        design='4/C04'),
    'C05': dict(
        engine='E2',
        technique='exhaustive enumeration of a regex-tree pattern grammar x subjects x flags x builtins; timeout arguments observed '
                  'through a seam on the regex module (deterministic) + wall time in killable child processes with confirmation runs',
        text='Every pattern of the grammar (atoms x nested quantifiers x sequence/alternation x suffix x prefix, two-group and fuzzy '
             'forms) is compiled alone and run through match / match_groups / match_all on subjects up to 10^5 characters with each '
             'flag string, in killable children; every engine call must carry a timeout in (0, 0.1] and the timeouts of one builtin call '
             'must sum to <= 0.1 s; wall time must stay below 1.05 s + 10 us/char (confirmed by re-runs). Complete within the grammar; '
             'the compile-phase hang is a listed known finding.',
        note='trusted: the regex engine honours its timeout; oracle 2 reads a clock (wide margin + confirmation runs)',
        design='4/C05'),
    'C09': dict(
        engine='E2',
        technique='exhaustive enumeration of construct shapes x nested fillers x ALL truthy/falsy/raises valuations of the probes; '
                  'probe log compared with an evaluation-order model',
        text='Every operand-bearing construct with a probe in every operand slot (and each slot in turn holding a nested and / or / '
             'if-else / + / call) is evaluated under every assignment of truthy / falsy / raises to its probes; the ordered probe log must '
             'equal the 40-line order model exactly (order and multiplicity), a raising probe must propagate unchanged, and lazy '
             'operators must return the deciding operand object itself. Complete for the shapes and probe counts stated.',
        note='trusted: the order model in c09.py; probes return a Decimal subclass accepting every operator',
        design='4/C09'),
    'C11': dict(
        engine='E3',
        technique='explicit-state BFS over call sequences on one parser, each history replayed on a pristine clone and compared call by '
                  'call with fresh-parser-per-call execution; states deduplicated on a generic dump of parser + lexer + LALR driver',
        text='Every sequence up to depth 2/3 over 94 calls (parse / eval / list_names fully consumed, abandoned, never started; valid, '
             'lexically and syntactically invalid incl. unbalanced and premature end, runtime / in-lambda / ops-limit failures, reserved '
             'words, stateful sources; fresh and two persistent names mappings), then 35 state-bearing calls one level deeper, is run on '
             'one parser and, in parallel, with a brand-new parser for every call; results, exception class + message and persistent '
             'names must be equal, and after an exception a battery of five calls must give the pristine answers.',
        note='trusted: pristine clones share only the big static LALR/regex tables (verified unchanged per task)',
        design='4/C11'),
    'C17': dict(
        engine='E3',
        technique='explicit-state BFS over call sequences run in lock-step on a parser with a parse cache (7 cache kinds) and one '
                  'without; states deduplicated on cache contents + names + last result',
        text='Every sequence up to depth 2/3 (+1 over container / lambda / host-mutation actions) of parse / eval over repeated, '
             'near-duplicate (blank / newline / form-feed), failing, literal-container and lambda sources, fresh / persistent names, three '
             'budgets, host deep-mutation of the last result and a host rebinding, for each cache kind (dict, LRU(1), LRU(2), evict-all, '
             'refuse-long-keys, pre-warmed by parse / eval); per-call results, errors, names and parsed trees must equal the uncached '
             'parser and cached trees must be structurally unchanged since insertion.',
        note='trusted: the uncached parser as reference (its own history independence is C11)',
        design='4/C17'),
    'C02': dict(
        engine='E4',
        technique='reachable-value-shape closure: exhaustive product of every builtin x argument tuples x call syntaxes + operator forms, '
                  'iterated over new result shapes; plain-data invariant on every node evaluation (external tracer) + Python audit hook',
        text='Starting from plain data of every shape class, language lambdas and the builtins as values, every key of FUNCTIONS is '
             'applied to every argument tuple (arity 0-2 full, 3 reduced) in three call syntaxes, together with every operator / index / '
             'slice / assignment / lambda form, every foreign identifier (attributes of the plain types, Python builtins) as variable and '
             'call, and failing sources; new result shapes join the pool for the next round. Every value returned by any node, the result '
             'and the final names must consist of plain data, table builtins and language lambdas only, and no file / process / network / '
             'import / exec audit event may fire while eval runs.',
        note='trusted: sys.addaudithook sees the listed activities; shape abstraction (type tree to depth 3) decides what is "new"',
        design='4/C02'),
    'C01': dict(
        engine='E2+E3',
        technique='exhaustive sweep of EVERY budget 1..K+2 for every driver program and construct shape, K counted from outside by a '
                  'node-evaluation tracer; all eval-call sequences up to length 2/3 over a shared names mapping with budgets around K; all '
                  'interleavings of two evaluating threads at host-callback granularity under a baton scheduler; every abort point of '
                  '~100 effectful program templates replayed on the reference interpreter stopped at the same operation (prefix-of-effects '
                  'oracle); every (outer budget, nested budget) pair for eval calls nested through a host callback',
        text='For every driver (all 13 node kinds; lambdas called directly, recursively, through map/filter/reduce/sorted, through '
             're-entrant and error-swallowing host callbacks, through ast_names; with and without a parse cache) and every construct '
             'shape, K is measured by the external tracer and every budget N in 1..K+2 is run: the charged counter must equal K, N > K '
             'must reproduce the unbounded run, N <= K must raise the ops-limit error at exactly the N-th node evaluation with the effect '
             'log equal to the unbounded effects before it. Every sequence of <= 2/3 eval calls over one names mapping is judged call by '
             'call on its own K. For every effectful statement template and every N <= K the host names mapping left behind by the aborted '
             'run must be a state the reference interpreter passes through before its N-th operation. For every pair (M, N) a nested '
             'eval call with budget N, made from a host callback of an outer call with budget M, must end as it does stand-alone.',
        note='trusted: wrapping every Op subclass eval from outside counts node evaluations; probe calls are the host-visible effects',
        design='4/C01'),
    'C07': dict(
        engine='E2',
        technique='type-directed exhaustive enumeration of programs (every production x leaves, one nested level, every statement form) '
                  'x two host mappings; real eval vs reference interpreter (value, names, error class, node-evaluation count)',
        text='Every production of a typed grammar over all operators, index / slice forms, conditionals, lambdas and ~40 builtins is '
             'instantiated with every leaf of each hole type and with any depth-1 term in one hole, and wrapped in ~60 statement / program '
             'templates (assignment forms, container mutation on program and host objects, lambdas incl. dynamic scoping, failing leaves); '
             'each program runs under two host mappings on the real evaluator and on an independent reference interpreter over exact '
             'decimals; outcome class, value (exact rationals + printed form), host names afterwards and the operation count must agree. '
             'Cases the (partial) model leaves undefined are counted and not compared.',
        note='trusted: mc/model/refeval.py, refparse.py, exactnum.py',
        design='4/C07'),
    'C10': dict(
        engine='E3',
        technique='explicit-state BFS over statement sequences about one name bound at every level, run as separate evals and as one '
                  'program; real eval vs the scope model of the reference interpreter + scope-stack / builtin-table invariants after '
                  'every eval; every abort point (every budget N <= K) of the last call of histories of <= 2 calls',
        text='Every sequence up to depth 2/3 (+1 over 14 statements) of 56 statements around the single name `len` - builtin key, host '
             'binding (absent / number / None), assignment target, lambda parameter, local of host-built multi-statement bodies - with '
             'direct, nested, dynamic-scope, recursive calls, calls through map/filter/reduce/sorted and through re-entrant and '
             'error-swallowing host callbacks, and raising bodies; values, errors and host names afterwards must match the scope model, '
             'and after every eval the scope stack must be [builtins, host names] and the builtin table untouched - also after a call '
             'aborted by the ops limit at any of its operations, where the host names must moreover be a state the scope model passes through.',
        note='trusted: mc/model/refeval.py scope model; the VM state handed to the tracer exposes the scope stack',
        design='4/C10'),
}

NOT_YET = {}


def main():
    props = [json.loads(l) for l in open(os.path.join(VERIF, 'properties.jsonl'))]
    checks = []
    na = []
    for p in props:
        pid = p['id']
        c = CHECKS.get(pid)
        if c is None:
            na.append({'property_id': pid, 'reason': NOT_YET.get(pid, 'check not built yet (work in progress; see DESIGN.md section 8)')})
            continue
        checks.append({
            'property_id': pid,
            'quick_cmd': f'{PY} -m mc.run {pid} --tier quick',
            'thorough_cmd': f'{PY} -m mc.run {pid} --tier thorough',
            'evidence_file': f'/verif/evidence/{pid}.json',
            'replay_cmd_template': f'{PY} -m mc.replay {{path}}',
            'engine': c['engine'],
            'level_claimed': {'category': 'model_checking', 'text': c['text'], 'design_ref': c['design']},
            'level_note': c['note'],
            'technique': c['technique'],
        })
    m = {
        'version': 1,
        'setup_cmd': f'{PY} -c "import regex, decimal; print(\'ok\')"',
        'hooks': {
            'guard': 'SMARTQUERY_VERIF',
            'enable': 'no instrumentation is needed: every observation point is wrapped from outside in the checker process',
            'baseline_off_cmd': 'cd /repo && /venv/bin/python -m pytest -ra -q -p no:cacheprovider --timeout=900 --continue-on-collection-errors',
            'source_commits': [],
            'add_only': True,
        },
        'engines': [
            {'name': 'E1', 'path': 'mc/core/e1.py', 'serves_properties': ['C06', 'C16', 'C18', 'C20'],
             'kind_free_text': 'prefix-tree explorer over token strings with both-dead pruning'},
            {'name': 'E2', 'path': 'mc/spaces/sentences.py', 'serves_properties': ['C06', 'C15', 'C16', 'C18', 'C20'],
             'kind_free_text': 'sentence enumerator up to n constructor nodes'},
        ],
        'checks': checks,
        'notes': 'All checks run the real code of /repo (copied to a private temp dir at start) exhaustively over a '
                 'bounded space; see DESIGN.md. Known findings: known_findings.json.',
        'not_applicable': na,
    }
    with open(os.path.join(VERIF, 'MANIFEST.json'), 'w') as f:
        json.dump(m, f, indent=1)
    print('checks:', [c['property_id'] for c in checks])


if __name__ == '__main__':
    main()
