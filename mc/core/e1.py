"""E1: prefix-tree exploration of token strings, real parser against reference parser.

A prefix is extended unless BOTH sides are dead strictly inside the string (DESIGN.md 2.2):
both parsers are online, so every extension of such a prefix is rejected by both.
"""
from ..model import refparse, reflex
from . import real as realmod, clone

import copy

from . import runner as _runner, snapshot as _snapshot

_real = None
_template = None


def get_real():
    """The task's parser: a deep copy of a pristine, never-used SqParser (30 ms), made once per
    task so that no task depends on the calls made by the task that ran before it."""
    global _real, _template
    if _real is None:
        if _template is None:
            _template = _snapshot.api().new_parser()
        _real = realmod.Real(clone.pristine(_template))
    return _real


def reset_real():
    global _real
    _real = None


_runner.TASK_INIT.append(reset_real)


class Verdict:
    """Pair of verdicts for one text, normalised."""
    __slots__ = ('text', 'r', 'm', 'rk', 'mk', 'rpos', 'mpos', 'toks', 'mat')

    def __init__(self, text):
        self.text = text
        R = get_real()
        self.r = R.parse(text)
        self.m = refparse.parse(text)
        r, m = self.r, self.m
        self.rk = r[0]
        self.rpos = r[1] if r[0] in ('dead', 'dead-other') else None
        self.mk = m[0]
        self.mpos = None
        self.toks = None
        self.mat = None
        if m[0] == 'dead':
            self.toks = m[2]
            self.mat = m[1]
            self.mpos = m[2][m[1]][2] if m[1] < len(m[2]) else 'EOF'

    def real_rejects(self):
        return self.rk != 'ok'

    def ref_rejects(self):
        return self.mk != 'ok'

    def both_dead_inside(self):
        r_in = (self.rk in ('dead',) and self.rpos != 'EOF') or self.rk in ('reserved', 'lex')
        m_in = (self.mk == 'dead' and self.mpos != 'EOF') or self.mk in ('reserved', 'lex')
        return r_in and m_in


def first_diff(a, b, depth=0):
    """Describe the first difference of two neutral trees (pre-order) - used as signature."""
    if a == b:
        return None
    if type(a) is not type(b) or not isinstance(a, (tuple, list)):
        return f'{_head(a)}|{_head(b)}'
    if isinstance(a, tuple):
        if len(a) != len(b) or a[0] != b[0] or (a[0] in ('bin', 'un', 'call', 'short') and a[1:2] != b[1:2]):
            return f'{_head(a)}|{_head(b)}'
        for x, y in zip(a[1:], b[1:]):
            d = first_diff(x, y, depth + 1)
            if d:
                return d if depth > 3 else f'{_head(a)}>{d}'
        return f'{_head(a)}|{_head(b)}'
    if len(a) != len(b):
        return f'list{len(a)}|list{len(b)}'
    for x, y in zip(a, b):
        d = first_diff(x, y, depth + 1)
        if d:
            return d
    return '?'


def _head(t):
    if isinstance(t, tuple) and t:
        if t[0] in ('bin', 'un', 'short'):
            return f'{t[0]}:{t[1]}' if t[0] != 'short' else f'short:{t[2]}'
        if t[0] == 'call':
            return f'call:{t[1]}/{len(t[2])}'
        if t[0] in ('num', 'str', 'const', 'name'):
            return t[0]
        return str(t[0])
    if isinstance(t, list):
        return f'list{len(t)}'
    return type(t).__name__


def context_types(text, pos, k=4):
    """Types of the (up to) k reference tokens ending at offset pos (or at the end)."""
    try:
        toks = reflex.tokens(text)
    except reflex.LexError as e:
        toks = e.tokens
    if pos == 'EOF' or pos is None:
        sel = toks[-(k - 1):] if k > 1 else []
        return ' '.join(t[0] for t in sel) + ' $end'
    sel = [t for t in toks if t[2] <= pos][-k:]
    return ' '.join(t[0] for t in sel)


def compare_parse(res, v, prop='C06', where='tokens'):
    """C06 oracle on one text: accept/reject agreement and tree equality."""
    text = v.text
    if v.rk in ('other', 'dead-other'):
        # not a ParserError: C16's business; for C06 it is a rejection
        pass
    if not v.real_rejects() and not v.ref_rejects():
        res.count('accepted_by_both')
        if v.r[1] != v.m[1]:
            sig = 'tree:' + (first_diff(v.m[1], v.r[1]) or '?')
            res.violation(sig, f'parsed tree differs from the grammar/operator table [{where}]',
                          {'text': text, 'expected': repr(v.m[1]), 'observed': repr(v.r[1])})
        res.outcome(repr(v.m[1]))
        return 'ok'
    if v.real_rejects() and v.ref_rejects():
        res.count('rejected_by_both')
        return 'rej'
    if v.real_rejects():
        pos = v.rpos
        sig = 'real-rejects@' + context_types(text, pos)
        res.violation(sig, f'text derivable from the grammar is rejected [{where}]',
                      {'text': text, 'expected': 'accepted: ' + repr(v.m[1]),
                       'observed': f'{v.rk} {v.r[-1]!r}'})
        return 'mismatch'
    sig = 'real-accepts@' + context_types(text, v.mpos if v.mk == 'dead' else None)
    res.violation(sig, f'text not derivable from the grammar is accepted [{where}]',
                  {'text': text, 'expected': f'rejected ({v.mk} at {v.mpos})',
                   'observed': 'accepted: ' + repr(v.r[1])})
    return 'mismatch'


def explore(prefix, alphabet, L, visit, res, sep=' '):
    """Depth-first over all extensions of `prefix` (list of symbols) up to length L."""
    stack = [list(prefix)]
    while stack:
        p = stack.pop()
        for s in alphabet:
            q = p + [s]
            text = sep.join(q)
            v = Verdict(text)
            res.count('strings')
            visit(res, v, q)
            if len(q) < L:
                if v.both_dead_inside():
                    res.count('pruned_prefixes')
                else:
                    res.count('viable_prefixes')
                    stack.append(q)


def seeds(alphabet, depth, visit, res, sep=' '):
    """Explore levels 1..depth in the calling process; return viable prefixes of length depth."""
    out = []
    stack = [[]]
    while stack:
        p = stack.pop()
        for s in alphabet:
            q = p + [s]
            v = Verdict(sep.join(q))
            res.count('strings')
            visit(res, v, q)
            if v.both_dead_inside():
                res.count('pruned_prefixes')
                continue
            res.count('viable_prefixes')
            if len(q) < depth:
                stack.append(q)
            else:
                out.append(q)
    out.sort()
    return out
