"""Per-call time limit inside a worker process (main thread): SIGALRM raises WatchdogTimeout."""
import signal


class WatchdogTimeout(Exception):
    pass


def _handler(signum, frame):
    raise WatchdogTimeout()


class limit:
    def __init__(self, seconds):
        self.seconds = seconds

    def __enter__(self):
        self.old = signal.signal(signal.SIGALRM, _handler)
        signal.setitimer(signal.ITIMER_REAL, self.seconds)
        return self

    def __exit__(self, *a):
        signal.setitimer(signal.ITIMER_REAL, 0)
        signal.signal(signal.SIGALRM, self.old)
        return False
