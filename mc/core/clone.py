"""Cheap pristine parser clones: deep copy of a never-used SqParser in which the big static tables
(LALR action / goto / productions, lexer regex tables) are shared instead of copied (0.9 ms instead of
17 ms, measured).  Everything else - every attribute a change to the repository may add to the parser,
its lexer or its LALR driver - is deep-copied, so clones share no mutable state that is not one of
those tables; the tables themselves are included (by content hash) in the state dumps of C11."""
import copy


def static_memo(tpl):
    memo = {}
    for obj in (tpl.lex, tpl.yacc):
        for k, v in vars(obj).items():
            if isinstance(v, (dict, list, tuple)) and len(v) > 0:
                try:
                    big = len(repr(v)) > 2000
                except Exception:  # noqa
                    big = False
                if big:
                    memo[id(v)] = v
    return memo


def pristine(tpl):
    return copy.deepcopy(tpl, static_memo(tpl))
