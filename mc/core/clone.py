"""Cheap pristine parser clones: deep copy of a never-used SqParser in which the big static tables
(LALR action / goto / productions, lexer regex tables) are shared instead of copied (0.9 ms instead of
17 ms, measured).  Everything else - every attribute a change to the repository may add to the parser,
its lexer or its LALR driver - is deep-copied, so clones share no mutable state that is not one of
those tables; the tables themselves are included (by content hash) in the state dumps of C11.
Read-only views (types.MappingProxyType), which deepcopy refuses, are immutable through the view and are shared."""
import copy
import types

_cache = {}


def _views(root, skip):
    """Objects reachable from root that deepcopy cannot copy but that are read-only views: shared between clones."""
    out = {}
    seen = set(skip)
    stack = [root]
    n = 0
    while stack and n < 200000:
        x = stack.pop()
        if id(x) in seen:
            continue
        seen.add(id(x))
        n += 1
        if isinstance(x, types.MappingProxyType):
            out[id(x)] = x
            continue
        if isinstance(x, (str, bytes, int, float, bool, type(None), types.FunctionType, types.BuiltinFunctionType, types.ModuleType, type)):
            continue
        if isinstance(x, dict):
            stack.extend(x.values())
        elif isinstance(x, (list, tuple, set, frozenset)):
            stack.extend(x)
        else:
            d = getattr(x, '__dict__', None)
            if isinstance(d, dict):
                stack.extend(d.values())
            for s in getattr(type(x), '__slots__', ()) or ():
                try:
                    stack.append(getattr(x, s))
                except AttributeError:
                    pass
    return out


def static_memo(tpl):
    base = _cache.get(id(tpl))
    if base is None or base[0] is not tpl:
        memo = {}
        for obj in (tpl.lex, tpl.yacc):
            for k, v in vars(obj).items():
                if isinstance(v, (dict, list, tuple)) and len(v) > 0:
                    try:
                        big = len(repr(v)) > 2000
                    except Exception:  # noqa
                        big = False
                    if big:
                        memo[id(v)] = v
        memo.update(_views(tpl, set(memo)))
        base = _cache[id(tpl)] = (tpl, memo)
    return dict(base[1])


def pristine(tpl):
    return copy.deepcopy(tpl, static_memo(tpl))
