"""Adapters around the real SqParser: neutral trees, verdict classification, token capture."""
import decimal

from . import snapshot


def neutral_value(v):
    if v is None or v is True or v is False:
        return ('const', v)
    if isinstance(v, decimal.Decimal):
        t = v.as_tuple()
        if isinstance(t.exponent, int):
            c = 0
            for d in t.digits:
                c = c * 10 + d
            if t.sign:
                return ('num-neg', c, t.exponent)
            return ('num', c, t.exponent)
        return ('num-special', str(v))
    if isinstance(v, str):
        return ('str', v)
    return ('value?', type(v).__name__, repr(v))


def neutral(op):
    """Real tree -> neutral tree (see model/refparse.py). Unknown shapes are rendered
    generically so that any difference is visible as a disagreement, never as a crash."""
    if op is None:
        return None
    cn = type(op).__name__
    if cn == 'CodeOp':
        return ('code', [neutral(x) for x in op.lines])
    if cn == 'ValueOp':
        return neutral_value(op.v)
    if cn == 'NameOp':
        return ('name', op.name)
    if cn == 'BinOp':
        return ('bin', op.op, neutral(op.op1), neutral(op.op2))
    if cn == 'UnaryOp':
        return ('un', op.op, neutral(op.op1))
    if cn == 'IfExprOp':
        return ('if', neutral(op.cond), neutral(op.op1), neutral(op.op2))
    if cn == 'LambdaOp':
        return ('lambda', [neutral(a) for a in op.args], neutral(op.expr))
    if cn == 'CallOp':
        return ('call', op.name, [neutral(a) for a in op.args])
    if cn == 'DictOp':
        return ('dict', [(neutral(k), neutral(v)) for k, v in op.d])
    if cn == 'SliceOp':
        return ('slice', neutral(op.start), neutral(op.stop), neutral(op.step))
    if cn == 'AssignOp':
        return ('assign', op.name, neutral(op.value))
    if cn == 'ShortOp':
        return ('short', op.name, op.op, neutral(op.value))
    if cn == 'NoOp':
        return ('noop',)
    if isinstance(op, (list, tuple)):
        return [neutral(x) for x in op]
    d = getattr(op, '__dict__', None)
    if d is not None:
        return ('?' + cn, [(k, neutral(v)) for k, v in sorted(d.items())])
    return ('?', repr(op))


def full_dump(op, depth=0):
    """EVERY instance attribute of every node (also those a dataclass excludes from == and repr), for attribute-level comparison."""
    if depth > 200:
        return '...'
    if isinstance(op, (list, tuple)):
        return [full_dump(x, depth + 1) for x in op]
    if isinstance(op, dict):
        return [(full_dump(k, depth + 1), full_dump(v, depth + 1)) for k, v in op.items()]
    d = getattr(op, '__dict__', None)
    if d is not None and type(op).__module__.endswith('ast_ops'):
        items = sorted(d.items())
        for sname in getattr(type(op), '__slots__', ()) or ():
            if hasattr(op, sname) and sname not in d:
                items.append((sname, getattr(op, sname)))
        return (type(op).__name__, [(k, full_dump(v, depth + 1)) for k, v in items])
    return repr(op)


_RECORDING = {}


class Real:
    """One real parser with a token recorder on its lexer."""

    def __init__(self, parser=None, **kw):
        self.api = snapshot.api()
        self.parser = parser if parser is not None else self.api.new_parser(**kw)
        self.last_tok = None      # last token handed to the parser (None = end of input)
        self.ntok = 0
        self.lex_failed = False
        self._install()

    def _install(self):
        # The recorder is a subclass of the lexer's class, not an instance attribute holding a closure: Lexer.clone() / copy.copy()
        # copy instance attributes, and a copied closure would keep reading from THIS lexer (a list_names that works on a clone of
        # the lexer would then see nothing). A copy of the lexer is an ordinary lexer: only the parser's own lexer object reports.
        lx = self.parser.lex
        base = type(lx)
        if not getattr(base, '_verif_recording', False):
            sub = _RECORDING.get(base)
            if sub is None:
                def token(this, _base=base):
                    rec = this.__dict__.get('_verif_rec')
                    if rec is None or rec.parser.lex is not this:
                        return _base.token(this)
                    try:
                        t = _base.token(this)
                    except BaseException:
                        rec.lex_failed = True
                        raise
                    rec.last_tok = t
                    rec.ntok += 1
                    return t
                sub = _RECORDING[base] = type(base.__name__, (base,), {'token': token, '_verif_recording': True, '__module__': base.__module__})
            lx.__class__ = sub
        lx._verif_rec = self

    def _reset(self):
        self.last_tok = None
        self.ntok = 0
        self.lex_failed = False

    def parse(self, text):
        """-> ('ok', neutral) | ('dead', pos|'EOF', exc) | ('reserved', exc) | ('lex', exc)
              | ('other', exc)"""
        self._reset()
        try:
            tree = self.parser.parse(text)
        except self.api.ParserError as e:
            if self.lex_failed:
                return ('lex', e)
            if 'reserved' in str(e).lower():
                return ('reserved', e)
            if self.ntok and self.last_tok is None:
                return ('dead', 'EOF', e)
            if self.last_tok is None:
                return ('other', e)
            return ('dead', self.last_tok.lexpos, e)
        except Exception as e:  # noqa
            if self.ntok and self.last_tok is None and not self.lex_failed:
                return ('dead-other', 'EOF', e)
            return ('other', e)
        self.last_tree = tree
        return ('ok', neutral(tree))

    def tokens(self, text):
        """Drive the real lexer exactly as list_names does; -> (tokens, exc)"""
        lx = self.parser.lex
        lx.lexpos = 0
        lx.lineno = 1
        lx.paren_count = 0
        lx.input(text)
        out = []
        cls = type(lx)
        orig = (cls.__mro__[1] if getattr(cls, '_verif_recording', False) else cls).token.__get__(lx)
        try:
            while True:
                t = orig()
                if t is None:
                    return out, None
                out.append((t.type, t.value, t.lexpos))
        except Exception as e:  # noqa
            return out, e
