"""External node-evaluation tracer (DESIGN.md 2.4): every class below ast_ops.Op gets its `eval`
wrapped, from outside, so that each node evaluation reports (enter / return value / exception).
A node kind added by a change to the repository is picked up automatically.
"""
from . import snapshot


class Hub:
    cb = None        # object with enter(node, state), leave(node, value), fail(node, exc)


_installed = False
_classes = []


def all_subclasses(cls):
    out = []
    seen = set()
    stack = [cls]
    while stack:
        c = stack.pop()
        for s in c.__subclasses__():
            if s not in seen:
                seen.add(s)
                out.append(s)
                stack.append(s)
    return out


def _wrap(orig):
    def eval(self, state):  # noqa - same name as the wrapped method
        cb = Hub.cb
        if cb is None:
            return orig(self, state)
        cb.enter(self, state)
        try:
            r = orig(self, state)
        except BaseException as e:
            cb.fail(self, e)
            raise
        cb.leave(self, r)
        return r
    eval.__wrapped_by_mc__ = True
    eval.__orig__ = orig
    return eval


def install():
    global _installed
    if _installed:
        return _classes
    api = snapshot.api()
    Op = api.ast_ops.Op
    subs = all_subclasses(Op)
    originals = {}
    for c in subs:
        own = c.__dict__.get('eval')
        if own is not None and not getattr(own, '__wrapped_by_mc__', False):
            originals[c] = own
    for c in subs:
        if c in originals:
            c.eval = _wrap(originals[c])
        else:
            # inherits eval (e.g. NoOp): wrap whatever the MRO resolves to, unwrapped
            for base in c.__mro__[1:]:
                f = base.__dict__.get('eval')
                if f is not None:
                    f = originals.get(base, getattr(f, '__orig__', f))
                    c.eval = _wrap(f)
                    break
        _classes.append(c)
    _installed = True
    return _classes


class Counter:
    """Counts node evaluations; optionally keeps the log."""

    def __init__(self, keep=False):
        self.entered = 0
        self.log = [] if keep else None

    def enter(self, node, state):
        self.entered += 1
        if self.log is not None:
            self.log.append(('enter', type(node).__name__))

    def leave(self, node, value):
        if self.log is not None:
            self.log.append(('leave', type(node).__name__))

    def fail(self, node, exc):
        if self.log is not None:
            self.log.append(('fail', type(node).__name__, type(exc).__name__))


class traced:
    def __init__(self, cb):
        self.cb = cb

    def __enter__(self):
        install()
        self.prev = Hub.cb
        Hub.cb = self.cb
        return self.cb

    def __exit__(self, *a):
        Hub.cb = self.prev
        return False
