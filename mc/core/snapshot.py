"""Bind the checker process to the *current working tree* of /repo.

The package directory /repo/smartquery is copied to a private temp directory and
imported from there (see DESIGN.md 2.1): SqParser() regenerates its LALR tables and
writes gen/parsetab.py on every construction, which must not happen inside /repo,
and a mutated grammar must not leave anything behind.
"""
import atexit
import importlib
import os
import shutil
import sys
import tempfile

REPO = os.environ.get('VERIF_REPO', '/repo')

_state = {'dir': None, 'pid': None}


def _cleanup():
    if _state['dir'] and _state['pid'] == os.getpid():
        shutil.rmtree(_state['dir'], ignore_errors=True)
        _state['dir'] = None


def load():
    """Copy REPO/smartquery, import it from the copy, return the package."""
    if _state['dir'] is not None:
        return importlib.import_module('smartquery')
    src = os.path.join(REPO, 'smartquery')
    if not os.path.isdir(src):
        raise SystemExit(f'internal: {src} not found')
    base = os.environ.get('VERIF_TMP') or None
    tmp = tempfile.mkdtemp(prefix='sqsnap-', dir=base)
    _state['dir'] = tmp
    _state['pid'] = os.getpid()
    atexit.register(_cleanup)
    shutil.copytree(src, os.path.join(tmp, 'smartquery'),
                    ignore=shutil.ignore_patterns('__pycache__', '*.pyc'))
    sys.dont_write_bytecode = True
    for name in list(sys.modules):
        if name == 'smartquery' or name.startswith('smartquery.'):
            del sys.modules[name]
    sys.path.insert(0, tmp)
    pkg = importlib.import_module('smartquery')
    importlib.import_module('smartquery.sq_parser')
    for name, mod in list(sys.modules.items()):
        if name == 'smartquery' or name.startswith('smartquery.'):
            f = getattr(mod, '__file__', None)
            if f and not os.path.realpath(f).startswith(os.path.realpath(tmp)):
                raise SystemExit(f'internal: {name} imported from {f}, not from the snapshot')
    return pkg


def snapshot_dir():
    return _state['dir']


class Api:
    """Handles on the pieces of smartquery the checks use."""

    def __init__(self):
        load()
        import smartquery.sq_parser as sq_parser
        import smartquery.ast_ops as ast_ops
        import smartquery.functions as functions
        import smartquery.exceptions as exceptions
        import smartquery.scoped_dict as scoped_dict
        import smartquery.vm_state as vm_state
        import smartquery.custom_types as custom_types
        import smartquery.lexer as lexer
        import smartquery.rules as rules
        self.sq_parser = sq_parser
        self.ast_ops = ast_ops
        self.functions = functions
        self.exceptions = exceptions
        self.scoped_dict = scoped_dict
        self.vm_state = vm_state
        self.custom_types = custom_types
        self.lexer = lexer
        self.rules = rules
        self.SqParser = sq_parser.SqParser
        self.ParserError = exceptions.ParserError
        self.OpsLimit = exceptions.OpsExecutionLimitExceededError
        self.FUNCTIONS = functions.FUNCTIONS
        self.Decimal = custom_types.Decimal

    def new_parser(self, **kw):
        import io
        import contextlib
        # PLY prints conflict warnings to stderr when tables are regenerated; keep logs clean
        buf = io.StringIO()
        with contextlib.redirect_stderr(buf):
            return self.SqParser(**kw)


_api = None


def api():
    global _api
    if _api is None:
        _api = Api()
    return _api
