"""Check runner: task pool, result merging, evidence files, known findings, replay files.

A check module provides
    ID            property id
    def plan(tier, seed) -> (tasks, info)     tasks: list of picklable task descriptors
    def work(task) -> Result                  executed in a forked worker, deterministic
    def finish(ctx)                           optional, may add global checks/anti-vacuity
    def replay(witness) -> str                re-executes one witness on a fresh parser

`Result` is the accumulator below.  Everything is enumerated exhaustively; the seed only
rotates task order / alphabets (see DESIGN.md 2.3).
"""
import hashlib
import json
import multiprocessing as mp
import os
import sys
import time
import traceback

VERIF = os.path.dirname(os.path.dirname(os.path.dirname(os.path.abspath(__file__))))
NPROC = int(os.environ.get('VERIF_JOBS', '16'))
MAX_WITNESS_PER_SIG = 2
MAX_SIGS = 200


def h(s):
    return hashlib.sha1(s.encode('utf-8', 'surrogatepass')).hexdigest()[:16]


class Result:
    """Accumulator returned by a worker for one task (and merged by the parent)."""

    def __init__(self):
        self.n = {}             # counters
        self.outcomes = set()   # hashes of distinct canonical outcomes (anti-vacuity)
        self.states = set()     # hashes of distinct canonical states
        self.viol = {}          # signature -> [what, [witness...], count]
        self.samples = []
        self.notes = {}
        self.bag = set()        # free-form set merged by union (BFS successor states)

    def count(self, key, k=1):
        self.n[key] = self.n.get(key, 0) + k

    def outcome(self, s):
        self.outcomes.add(s if len(s) <= 16 else h(s))

    def state(self, s):
        self.states.add(s if len(s) <= 16 else h(s))

    def sample(self, s, cap=3):
        if len(self.samples) < cap:
            self.samples.append(s)

    def violation(self, sig, what, witness):
        e = self.viol.get(sig)
        if e is None:
            if len(self.viol) >= MAX_SIGS:
                self.count('violation_signatures_dropped')
                return
            e = self.viol[sig] = [what, [], 0]
        e[2] += 1
        if len(e[1]) < MAX_WITNESS_PER_SIG:
            e[1].append(witness)

    def merge(self, other):
        for k, v in other.n.items():
            self.n[k] = self.n.get(k, 0) + v
        self.outcomes |= other.outcomes
        self.states |= other.states
        for sig, (what, wits, cnt) in other.viol.items():
            e = self.viol.get(sig)
            if e is None:
                if len(self.viol) >= MAX_SIGS:
                    self.count('violation_signatures_dropped')
                    continue
                e = self.viol[sig] = [what, [], 0]
            e[2] += cnt
            for w in wits:
                if len(e[1]) < MAX_WITNESS_PER_SIG:
                    e[1].append(w)
        for s in other.samples:
            if len(self.samples) < 8:
                self.samples.append(s)
        for k, v in other.notes.items():
            self.notes.setdefault(k, v)
        self.bag |= other.bag

    def digest(self):
        """Deterministic summary used by the replay self-test."""
        return json.dumps([sorted(self.n.items()), sorted(self.outcomes), sorted(self.states),
                           sorted((s, v[2]) for s, v in self.viol.items())], default=str)


MEM_LIMIT = int(os.environ.get('VERIF_WORKER_MEM', str(6 << 30)))


def _worker_init():
    # a runaway evaluation must end in MemoryError inside the worker, not in an OOM kill
    import resource
    try:
        resource.setrlimit(resource.RLIMIT_AS, (MEM_LIMIT, MEM_LIMIT))
    except (ValueError, OSError):
        pass


_WORK = None
TASK_INIT = []      # callables run before every task: tasks must not depend on what ran before them


def _call(task):
    try:
        for f in TASK_INIT:
            f()
        return ('ok', _WORK(task))
    except BaseException:  # noqa - report, never hang the pool
        return ('err', traceback.format_exc())


def run_tasks(work, tasks, jobs=None, chunksize=1, selftest=True, progress=None):
    """Map `work` over `tasks` in forked workers; merge in task order; self-test determinism."""
    global _WORK
    _WORK = work
    jobs = jobs or NPROC
    total = Result()
    per_task = []
    if not tasks:
        return total
    if jobs == 1 or len(tasks) == 1:
        it = map(_call, tasks)
        pool = None
    else:
        import concurrent.futures as cf
        ctx = mp.get_context('fork')
        # ProcessPoolExecutor (unlike multiprocessing.Pool) reports a worker that died (OOM kill,
        # segfault) as BrokenProcessPool instead of waiting for ever
        pool = cf.ProcessPoolExecutor(max_workers=min(jobs, len(tasks)), mp_context=ctx, initializer=_worker_init)
        it = pool.map(_call, tasks, chunksize=chunksize)
    try:
        try:
            for i, (st, res) in enumerate(it):
                if st != 'ok':
                    print(f'INTERNAL-ERROR in task {tasks[i]!r}:\n{res}', file=sys.stderr)
                    raise SystemExit(2)
                per_task.append(res.digest() if selftest else None)
                total.merge(res)
                if progress and (i + 1) % progress == 0:
                    print(f'  .. {i + 1}/{len(tasks)} tasks', file=sys.stderr)
        except Exception as e:  # noqa - BrokenProcessPool and friends
            print(f'INTERNAL-ERROR: worker pool failed: {e!r}', file=sys.stderr)
            raise SystemExit(2)
    finally:
        if pool is not None:
            pool.shutdown(wait=False, cancel_futures=True)
    if selftest:
        # replay self-test: first, middle and last task again, in this process
        for i in sorted({0, len(tasks) // 2, len(tasks) - 1}):
            st, res = _call(tasks[i])
            if st != 'ok' or res.digest() != per_task[i]:
                print(f'INTERNAL-ERROR: task {tasks[i]!r} is not deterministic '
                      f'(harness can not be believed)', file=sys.stderr)
                if st != 'ok':
                    print(res, file=sys.stderr)
                if total.viol:
                    # violations were observed on the real code and each has a replay file that
                    # re-executes it without the explorer: report them rather than hide them
                    total.count('selftest_mismatch')
                    return total
                raise SystemExit(2)
        total.count('selftest_tasks_replayed', len({0, len(tasks) // 2, len(tasks) - 1}))
    return total


# ---------------------------------------------------------------- known findings

def load_findings():
    p = os.path.join(VERIF, 'known_findings.json')
    if not os.path.exists(p):
        return []
    with open(p) as f:
        data = json.load(f)
    return data.get('findings', [])


def rotate(seq, seed):
    seq = list(seq)
    if not seq:
        return seq
    k = seed % len(seq)
    return seq[k:] + seq[:k]


# ---------------------------------------------------------------- finishing a check

def finish(prop, tier, seed, total, coverage, assumptions, t0, level='model_checking'):
    """Write evidence, replay files; print KNOWN-FINDING / VIOLATION lines; return exit code."""
    known = {f['signature']: f for f in load_findings() if f.get('property') == prop}
    out = os.environ.get('VERIF_OUT') or VERIF     # development runs against scratch copies write elsewhere
    os.makedirs(os.path.join(out, 'evidence'), exist_ok=True)
    os.makedirs(os.path.join(out, 'replays'), exist_ok=True)
    nviol = 0
    known_hits = {}
    lines = []
    for sig in sorted(total.viol):
        what, wits, cnt = total.viol[sig]
        if sig in known:
            known_hits[sig] = cnt
            print(f'KNOWN-FINDING: property={prop} {known[sig].get("what", what)} '
                  f'[signature {sig}; {cnt} case(s) in this run]')
            continue
        nviol += 1
        rid = h(prop + sig)
        path = os.path.join(out, 'replays', f'{prop}-{rid}.json')
        with open(path, 'w') as f:
            json.dump({'property': prop, 'signature': sig, 'what': what, 'cases_in_run': cnt,
                       'witness': wits[0] if wits else None, 'more_witnesses': wits[1:]},
                      f, indent=1, default=str, ensure_ascii=True)
        lines.append((path, sig, what, cnt))
    cov = dict(coverage)
    cov.setdefault('counters', {k: total.n[k] for k in sorted(total.n)})
    cov.setdefault('distinct_outcomes', len(total.outcomes))
    cov.setdefault('samples', total.samples[:8] or ['(none)'])
    cov['known_finding_hits'] = known_hits
    cov['unlisted_violation_signatures'] = [s for (_, s, _, _) in lines]
    if total.notes:
        cov['notes'] = total.notes
    ev = {
        'property_id': prop,
        'tier': tier,
        'seed': seed,
        'level': level,
        'coverage': cov,
        'assumptions': assumptions,
        'wall_s': round(time.time() - t0, 2),
        'violations': nviol,
    }
    with open(os.path.join(out, 'evidence', f'{prop}.json'), 'w') as f:
        json.dump(ev, f, indent=1, default=str, ensure_ascii=True)
    for path, sig, what, cnt in lines:
        print(f'VIOLATION property={prop} replay={path}')
        print(f'  signature: {sig}\n  what: {what}\n  cases: {cnt}')
    print(f'{prop} {tier}: states={cov.get("states")} transitions={cov.get("transitions")} '
          f'distinct_outcomes={cov.get("distinct_outcomes")} exhaustive={cov.get("exhaustive")} '
          f'violations={nviol} known={len(known_hits)} wall={ev["wall_s"]}s')
    return 1 if nviol else 0
