"""Surface-syntax trees ("sentences") up to n constructor nodes, their renderings to token
lists and their neutral form (DESIGN.md 3).  The trees only *generate* texts; the oracle for
a text is always the reference parser.
"""
from ..model.refparse import NONE

BINOPS = ['or', 'and', '==', '!=', '>', '<', '>=', '<=', 'in', 'not in', '+', '-', '*', '/', '**']
SHORTOPS = ['+=', '-=', '*=', '/=']
SLICE_FORMS = [':', 'e:e', 'e:', ':e', 'e::', ':e:', '::e']   # the eighth published shape is the plain index
# shapes the published grammar does NOT have (Python has them): generated too, the reference decides
UNPUBLISHED_SLICE_FORMS = ['::', 'e:e:e', 'e::e', ':e:e', 'e:e:', ':::']
LEAVES = [('leaf', 'a', ('name', 'a')), ('leaf', '1', ('num', 1, 0)),
          ('leaf', 'b', ('name', 'b')), ('leaf', '"s"', ('str', 's')),
          ('leaf', 'True', ('const', True)), ('leaf', '2.50', ('num', 250, -2)),
          ('leaf', 'None', NONE), ('leaf', "'t'", ('str', 't')),
          ('leaf', '"u\\nv"', ('str', 'u\nv')), ('leaf', '%n m%', ('name', '%n m%')),
          ('leaf', 'index', ('name', 'index')), ('leaf', '0', ('num', 0, 0)), ('leaf', 'iffy', ('name', 'iffy'))]


def constructors(compact=False):
    """List of (name, arity, build) for expression constructors; build(children) -> surface."""
    cs = []
    for op in BINOPS:
        cs.append(('bin ' + op, 2, lambda ch, op=op: ('bin', op, ch[0], ch[1])))
    cs.append(('neg', 1, lambda ch: ('un', '-', ch[0])))
    cs.append(('not', 1, lambda ch: ('un', 'not', ch[0])))
    cs.append(('if', 3, lambda ch: ('if', ch[1], ch[0], ch[2])))      # children in source order: a, c, b
    for k in (0, 1, 2):
        cs.append((f'call{k}', k, lambda ch: ('call', 'f', list(ch))))
        cs.append((f'meth{k}', k + 1, lambda ch: ('meth', 'g', ch[0], list(ch[1:]))))
    cs.append(('pipe', 1, lambda ch: ('pipe', 'h', ch[0], None)))
    for k in (1, 2):
        cs.append((f'pipe{k}', k + 1, lambda ch: ('pipe', 'h', ch[0], list(ch[1:]))))
    cs.append(('idx', 2, lambda ch: ('idx', ch[0], ch[1])))
    for form in SLICE_FORMS + UNPUBLISHED_SLICE_FORMS:
        k = form.count('e')
        cs.append(('slice ' + form, k + 1, lambda ch, form=form: ('slice', ch[0], form, list(ch[1:]))))
    for k in (0, 1, 2):
        cs.append((f'list{k}', k, lambda ch: ('list', list(ch))))
    cs.append(('dict0', 0, lambda ch: ('dict', [])))
    cs.append(('dict1', 2, lambda ch: ('dict', [(ch[0], ch[1])])))
    cs.append(('dict2', 4, lambda ch: ('dict', [(ch[0], ch[1]), (ch[2], ch[3])])))
    cs.append(('lam1', 1, lambda ch: ('lam1', 'p', ch[0])))
    cs.append(('lam2', 1, lambda ch: ('lamN', ['p', 'q'], ch[0])))
    return cs


STATEMENTS = [
    ('expr', 1, lambda ch: ('expr', ch[0])),
    ('assign', 1, lambda ch: ('assign', 'x', ch[0])),
    ('short', 1, lambda ch: ('short', 'x', '+=', ch[0])),
    ('short*', 1, lambda ch: ('short', 'x', '*=', ch[0])),
    ('setitem', 3, lambda ch: ('setitem', ch[0], ch[1], ch[2])),
    ('setop', 3, lambda ch: ('setop', ch[0], ch[1], '-=', ch[2])),
    ('del', 2, lambda ch: ('del', ch[0], ch[1])),
]


class LeafSupply:
    def __init__(self, start=0):
        self.i = start

    def next(self):
        leaf = LEAVES[self.i % len(LEAVES)]
        self.i += 1
        return leaf


def gen_expr(n, cs):
    """All expression shapes with exactly n constructor nodes, as nested ('C', idx, [children]) /
    ('L',) skeletons."""
    if n == 0:
        yield ('L',)
        return
    for ci, (name, arity, build) in enumerate(cs):
        if arity == 0:
            if n == 1:
                yield ('C', ci, [])
            continue
        for dist in _compositions(n - 1, arity):
            for kids in _product([list(gen_expr(k, cs)) for k in dist]):
                yield ('C', ci, list(kids))


_comp_cache = {}


def _compositions(total, parts):
    key = (total, parts)
    if key not in _comp_cache:
        if parts == 1:
            res = [(total,)]
        else:
            res = []
            for first in range(total + 1):
                for rest in _compositions(total - first, parts - 1):
                    res.append((first,) + rest)
        _comp_cache[key] = res
    return _comp_cache[key]


def _product(lists):
    if not lists:
        yield ()
        return
    for x in lists[0]:
        for rest in _product(lists[1:]):
            yield (x,) + rest


def build(skel, cs, supply):
    if skel[0] == 'L':
        return supply.next()
    _, ci, kids = skel
    return cs[ci][2]([build(k, cs, supply) for k in kids])


def gen_statements(n, cs):
    """Statement skeletons with at most n expression-constructor nodes below the statement."""
    for si, (name, arity, b) in enumerate(STATEMENTS):
        for total in range(n + 1):
            for dist in _compositions(total, arity):
                for kids in _product([list(gen_expr(k, cs)) for k in dist]):
                    yield (si, list(kids))


def build_statement(sk, cs, supply):
    si, kids = sk
    return STATEMENTS[si][2]([build(k, cs, supply) for k in kids])


# ------------------------------------------------------------------ neutral form

def to_neutral(t):
    k = t[0]
    if k == 'leaf':
        return t[2]
    if k == 'paren':
        return to_neutral(t[1])
    if k == 'bin':
        return ('bin', t[1], to_neutral(t[2]), to_neutral(t[3]))
    if k == 'un':
        return ('un', t[1], to_neutral(t[2]))
    if k == 'if':
        return ('if', to_neutral(t[1]), to_neutral(t[2]), to_neutral(t[3]))
    if k == 'call':
        return ('call', t[1], [to_neutral(a) for a in t[2]])
    if k == 'meth':
        return ('call', t[1], [to_neutral(t[2])] + [to_neutral(a) for a in t[3]])
    if k == 'pipe':
        return ('call', t[1], [to_neutral(t[2])] + [to_neutral(a) for a in (t[3] or [])])
    if k == 'idx':
        return ('call', '__getitem__', [to_neutral(t[1]), to_neutral(t[2])])
    if k == 'slice':
        es = [to_neutral(e) for e in t[3]]
        form = t[2]
        if form in UNPUBLISHED_SLICE_FORMS:
            return ('ungrammatical', form)
        if form == ':':
            sl = ('slice', NONE, NONE, NONE)
        elif form == 'e:e':
            sl = ('slice', es[0], es[1], NONE)
        elif form in ('e:', 'e::'):
            sl = ('slice', es[0], NONE, NONE)
        elif form in (':e', ':e:'):
            sl = ('slice', NONE, es[0], NONE)
        else:
            sl = ('slice', NONE, NONE, es[0])
        return ('call', '__getitem__', [to_neutral(t[1]), sl])
    if k == 'list':
        return ('call', 'list', [to_neutral(a) for a in t[1]])
    if k == 'dict':
        if not t[1]:
            return ('call', 'dict', [])
        return ('dict', [(to_neutral(a), to_neutral(b)) for a, b in t[1]])
    if k == 'lam1':
        return ('lambda', [('name', t[1])], to_neutral(t[2]))
    if k == 'lamN':
        return ('lambda', [('name', p) for p in t[1]], to_neutral(t[2]))
    if k == 'expr':
        return to_neutral(t[1])
    if k == 'assign':
        return ('assign', t[1], to_neutral(t[2]))
    if k == 'short':
        return ('short', t[1], t[2], to_neutral(t[3]))
    if k == 'setitem':
        return ('call', '__setitem__', [to_neutral(t[1]), to_neutral(t[2]), to_neutral(t[3])])
    if k == 'setop':
        return ('call', '__setitem_with_op__',
                [to_neutral(t[1]), to_neutral(t[2]), ('str', t[3]), to_neutral(t[4])])
    if k == 'del':
        return ('call', '__delitem__', [to_neutral(t[1]), to_neutral(t[2])])
    raise ValueError(k)


# ------------------------------------------------------------------ rendering

def composite_slots(t, path=()):
    """Paths of operand slots that hold a composite (non-leaf) expression."""
    out = []
    for p, child in children(t):
        if child[0] != 'leaf':
            out.append(path + (p,))
        out.extend(composite_slots(child, path + (p,)))
    return out


def children(t):
    """(slot-id, child) pairs of expression operands, in source order."""
    k = t[0]
    if k == 'leaf':
        return []
    if k == 'paren':
        return [(1, t[1])]
    if k == 'bin':
        return [(2, t[2]), (3, t[3])]
    if k == 'un':
        return [(2, t[2])]
    if k == 'if':
        return [(2, t[2]), (1, t[1]), (3, t[3])]
    if k == 'call':
        return [((2, i), a) for i, a in enumerate(t[2])]
    if k in ('meth', 'pipe'):
        return [(2, t[2])] + [((3, i), a) for i, a in enumerate(t[3] or [])]
    if k == 'idx':
        return [(1, t[1]), (2, t[2])]
    if k == 'slice':
        return [(1, t[1])] + [((3, i), a) for i, a in enumerate(t[3])]
    if k == 'list':
        return [((1, i), a) for i, a in enumerate(t[1])]
    if k == 'dict':
        out = []
        for i, (a, b) in enumerate(t[1]):
            out.append(((1, i, 0), a))
            out.append(((1, i, 1), b))
        return out
    if k in ('lam1', 'lamN'):
        return [(2, t[2])]
    if k == 'expr':
        return [(1, t[1])]
    if k == 'assign':
        return [(2, t[2])]
    if k == 'short':
        return [(3, t[3])]
    if k == 'setitem':
        return [(1, t[1]), (2, t[2]), (3, t[3])]
    if k == 'setop':
        return [(1, t[1]), (2, t[2]), (4, t[4])]
    if k == 'del':
        return [(1, t[1]), (2, t[2])]
    raise ValueError(k)


def render(t, parens=frozenset(), path=(), trailing=frozenset()):
    """Token list.  `parens`: set of slot paths rendered inside ( ).  `trailing`: set of node
    paths (path of the call / list / dict node) that get a trailing comma."""
    def sub(slot):
        p = path + (slot,)
        child = dict(children(t))[slot]
        toks = render(child, parens, p, trailing)
        if p in parens:
            return ['('] + toks + [')']
        return toks

    def seq(slots, node_path=path):
        out = []
        for i, s in enumerate(slots):
            if i:
                out.append(',')
            out.extend(sub(s))
        if slots and node_path in trailing:
            out.append(',')
        return out

    k = t[0]
    if k == 'leaf':
        return [t[1]]
    if k == 'paren':
        return ['('] + sub(1) + [')']
    if k == 'bin':
        return sub(2) + t[1].split(' ') + sub(3)
    if k == 'un':
        return [t[1]] + sub(2)
    if k == 'if':
        return sub(2) + ['if'] + sub(1) + ['else'] + sub(3)
    if k == 'call':
        return [t[1], '('] + seq([(2, i) for i in range(len(t[2]))]) + [')']
    if k == 'meth':
        return sub(2) + ['.', t[1], '('] + seq([(3, i) for i in range(len(t[3]))]) + [')']
    if k == 'pipe':
        if t[3] is None:
            return sub(2) + ['|', t[1]]
        return sub(2) + ['|', t[1], '('] + seq([(3, i) for i in range(len(t[3]))]) + [')']
    if k == 'idx':
        return sub(1) + ['['] + sub(2) + [']']
    if k == 'slice':
        inner = []
        j = 0
        for ch in t[2]:
            if ch == 'e':
                inner.extend(sub((3, j)))
                j += 1
            else:
                inner.append(':')
        return sub(1) + ['['] + inner + [']']
    if k == 'list':
        return ['['] + seq([(1, i) for i in range(len(t[1]))]) + [']']
    if k == 'dict':
        out = ['{']
        for i in range(len(t[1])):
            if i:
                out.append(',')
            out.extend(sub((1, i, 0)))
            out.append(':')
            out.extend(sub((1, i, 1)))
        if t[1] and path in trailing:
            out.append(',')
        return out + ['}']
    if k == 'lam1':
        return [t[1], '=>'] + sub(2)
    if k == 'lamN':
        out = ['(']
        for i, p in enumerate(t[1]):
            if i:
                out.append(',')
            out.append(p)
        return out + [')', '=>'] + sub(2)
    if k == 'expr':
        return sub(1)
    if k == 'assign':
        return [t[1], '='] + sub(2)
    if k == 'short':
        return [t[1], t[2]] + sub(3)
    if k == 'setitem':
        return sub(1) + ['['] + sub(2) + [']', '='] + sub(3)
    if k == 'setop':
        return sub(1) + ['['] + sub(2) + [']', t[3]] + sub(4)
    if k == 'del':
        return ['del'] + sub(1) + ['['] + sub(2) + [']']
    raise ValueError(k)


def comma_nodes(t, path=()):
    """Paths of call / method / pipe-call / list / dict nodes with at least one element."""
    out = []
    k = t[0]
    if (k == 'call' and t[2]) or (k == 'meth' and t[3]) or (k == 'pipe' and t[3]) \
            or (k == 'list' and t[1]) or (k == 'dict' and t[1]):
        out.append(path)
    for p, child in children(t):
        out.extend(comma_nodes(child, path + (p,)))
    return out


def subsets(items, max_size=None):
    items = list(items)
    n = len(items)
    for mask in range(1 << n):
        s = [items[i] for i in range(n) if mask >> i & 1]
        if max_size is None or len(s) <= max_size:
            yield frozenset(s)
