"""Token and character alphabets (DESIGN.md 3)."""

# one spelling per grammatical role
SIGMA_Q = ['a', '1', '"s"', '==', '<', 'in', 'not', '+', '-', '*', '**', '/', 'and', 'or',
           '(', ')', '[', ']', ',', '.', '|', '=', '+=', '=>', ':', '{', '}', '\n', ';',
           'if', 'else', 'True', 'del', 'for']

# every token type and every spelling
SIGMA_FULL = SIGMA_Q + ['!=', '>', '>=', '<=', '-=', '*=', '/=', 'False', 'None',
                        'while', 'break', 'continue', 'def', 'raise', 'elif',
                        'b', '%n m%', '2.5', "'s'", 'r"s"', '\r\n', '"u\\nv"', 'index', 'notx', 'orb', '0', 'Truex', 'r', '"p\u2028q"', '"\x85\x0b\x0c\x1c\r"',
                        'null', 'true', 'none', 'nil', 'lambda', 'is', 'return']

SIGMA_CHAR = ['a', '1', '.', '"', "'", '\\', '%', '#', ' ', '\n', 'r', '=', '>', '-', '(', ']',
              'é', '\x00', '\ud800', '$', '\f', '\r', ';', '\U0001F600', '²', '１', '\u2028', '\x85', '\x1c', 'µ', 'ﬁ', '\ufeff', '\xa0', '*']


def join(symbols):
    return ' '.join(symbols)
