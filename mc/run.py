"""CLI:  /venv/bin/python -m mc.run <Cxx> [--tier quick|thorough]      (cwd = /verif)"""
import argparse
import importlib
import os
import sys
import time


def main():
    ap = argparse.ArgumentParser()
    ap.add_argument('prop')
    ap.add_argument('--tier', default=os.environ.get('VERIF_TIER', 'quick'), choices=['quick', 'thorough'])
    args = ap.parse_args()
    os.environ.setdefault('PYTHONHASHSEED', '0')
    if os.environ.get('PYTHONHASHSEED') != '0' or not sys.dont_write_bytecode:
        # re-exec once so that hash order is fixed and no .pyc is written anywhere
        os.environ['PYTHONHASHSEED'] = '0'
        os.environ['PYTHONDONTWRITEBYTECODE'] = '1'
        os.execv(sys.executable, [sys.executable, '-m', 'mc.run'] + sys.argv[1:])
    try:
        seed = int(os.environ.get('VERIF_SEED', '0'))
    except ValueError:
        seed = 0
    mod = importlib.import_module('mc.checks.' + args.prop.lower())
    t0 = time.time()
    try:
        rc = mod.main(args.tier, seed, t0)
    except SystemExit:
        raise
    except BaseException:  # noqa - an internal error of the harness is never reported as a violation (exit 1)
        import traceback
        traceback.print_exc()
        print('INTERNAL-ERROR: the check itself failed', file=sys.stderr)
        sys.stdout.flush()
        sys.exit(2)
    sys.stdout.flush()
    sys.exit(rc)


if __name__ == '__main__':
    main()
