"""C18 - list_names reports every name an evaluation can ask the host for.

Enumerated: the C06 token and character spaces and all sentences with <= N nodes
(names in every role, %..% names, names next to strings / comments / keywords).
Oracles:
  1. list(list_names(text)) == identifiers found by the reference lexer, in order; ParserError
     exactly when the reference lexer meets an illegal character (asked twice: same answer)
  2. for parsable texts every name occurring in the real tree is listed
  3. during eval with a *recording* host mapping (several valuations: unbound, numbers,
     strings, lists, dicts, falsy) every key the evaluation looks up or writes in the host
     mapping is listed, or is one of the implicit sugar names
"""
from ..core import runner, e1, snapshot
from ..model import refparse, reflex
from ..spaces import tokens as T, sentences as S

ID = 'C18'

BOUNDS = {
    'quick': dict(LQ=4, LF=3, M=4, N=1),
    'thorough': dict(LQ=6, LF=4, M=5, N=2),
}

IMPLICIT = {'list', 'dict', '__getitem__', '__setitem__', '__delitem__', '__setitem_with_op__'}

COMMENT_TEXTS = [
    'a # b\nc', '# a\nb', 'a #', '"x # y" + z', "a'#'b", 'a#b"c"', 'x = "q" # r\n%p q% . f ( )',
    '%a.b% + %c d% | f', '%a#b%', '%a"b%c"%', 'if_ else1 in2 not3 Truex', 'a.b', 'a . b ( c )',
    'r"a" ra"b" r', 'r', 'rr"x"', "r'q'w", '%%', '%a% %b%', 'a%b%c', 'del_ del x [ y ]',
    'for_ x', 'f(a, b = c)', '(p, q) => p + q + r', 'p => q => p', 'x += y -= z',
    '{k: v, "s": w}', 'a[b:c]', 'a[b::c]', 'é1 = _ü + ²', 'None_ None', 'a\r\nb;c\n\nd',
    'map(l, "shout")', 'filter(l, "keep")', 'sorted(l, "bykey")', 'reduce(l, "fold")', 'l | map("b")', 'l.sorted("k", "r")', 'get(d, "dflt")',
    'map(l, v => "inner")', 'x = "len"; x(l)', 'd["k"]', 'd.k2' , 'l | "str"', 'join(l, "sep")', 'replace("a", "b", "c")', 'ﬁeld + µ + ｆull',
    'ﬁ(1)', 'x.ﬂ()', 'ｘ = 1; ｘ', 'Ⅷ = 2', 'ⅈ => ⅈ',
    '"a\\"b" c', "'a\\'b' c", '"a\\\\" c', 'a "b', "a 'b", 'a $ b', 'a \\ b', '%a\nb%', 'a % b',
]


class Recording(dict):
    """Host names mapping that logs every key it is asked for (DESIGN.md 2.4)."""

    def __init__(self, *a, **k):
        dict.__init__(self, *a, **k)
        self.asked = []

    def __contains__(self, k):
        self.asked.append(k)
        return dict.__contains__(self, k)

    def __getitem__(self, k):
        self.asked.append(k)
        return dict.__getitem__(self, k)

    def __setitem__(self, k, v):
        self.asked.append(k)
        return dict.__setitem__(self, k, v)

    def __delitem__(self, k):
        self.asked.append(k)
        return dict.__delitem__(self, k)

    def get(self, k, d=None):
        self.asked.append(k)
        return dict.get(self, k, d)

    def setdefault(self, k, d=None):
        self.asked.append(k)
        return dict.setdefault(self, k, d)

    def pop(self, k, *d):
        self.asked.append(k)
        return dict.pop(self, k, *d)


def valuations(names):
    api = snapshot.api()
    D = api.Decimal
    fn = lambda *a: D(1)   # noqa
    kinds = {
        'unbound': lambda n: None,
        'num': lambda n: D(2),
        'str': lambda n: 'ab',
        'list': lambda n: [D(1), D(2), D(3)],
        'dict': lambda n: {'1': D(1), 's': D(2)},
        'falsy': lambda n: D(0),
    }
    for kind, mk in kinds.items():
        m = Recording()
        if kind != 'unbound':
            for n in names:
                if n in api.FUNCTIONS and kind != 'falsy':
                    continue        # builtins stay builtins (only the `falsy` valuation lets the host override them)
                dict.__setitem__(m, n, fn if n in ('f', 'g', 'h') else mk(n))
        yield kind, m


def check_listing(res, text, v=None):
    R = e1.get_real()
    PE = R.api.ParserError
    want, lexerr = reflex.names(text)
    got = None
    for attempt in (1, 2):
        out = []
        err = None
        try:
            it = R.parser.list_names(text)
            if attempt == 2:
                # the second listing is consumed only after another, complete, listing was made on the same parser
                if list(R.parser.list_names('zz + qq')) != ['zz', 'qq']:
                    res.violation('listing:interleaved-other', 'list_names of a fixed text differs while another listing is pending',
                                  {'text': text, 'expected': "['zz', 'qq']", 'observed': 'something else'})
                    return None
            for n in it:
                out.append(n)
        except PE as e:
            err = e
        except Exception as e:  # noqa
            err = e
            res.violation(f'list_names:raises:{type(e).__name__}', 'list_names raised something that is not a ParserError',
                          {'text': text, 'expected': repr(want), 'observed': repr(e)})
            return None
        res.count('listings')
        if out != want or (err is None) != (lexerr is None):
            i = 0
            while i < len(out) and i < len(want) and out[i] == want[i]:
                i += 1
            kind = 'missing' if len(out) < len(want) or (i < len(want) and i >= len(out)) else 'extra-or-different'
            if out == want:
                kind = 'no-error' if err is None else 'spurious-error'
            try:
                toks = reflex.tokens(text)
            except reflex.LexError as le:
                toks = le.tokens
            ntoks = [t for t in toks if t[0] == 'NAME']
            ctx = ''
            if i < len(ntoks):
                j = toks.index(ntoks[i])
                ctx = ' '.join(t[0] for t in toks[max(0, j - 1):j + 2])
            res.violation(f'listing:{kind}:attempt{attempt}:{ctx}',
                          'list_names differs from the identifiers occurring in the text',
                          {'text': text, 'expected': repr(want) + (' then ParserError' if lexerr else ''),
                           'observed': repr(out) + (f' then {type(err).__name__}' if err else '')})
            return None
        got = out
    res.outcome(repr(want) + ('!' if lexerr else ''))
    if lexerr is None:
        other_parsers(res, text, want)
    if lexerr is not None:
        failed_listing(res, text, want)
    return got if lexerr is None else None


_two = [None]
runner.TASK_INIT.append(lambda: _two.__setitem__(0, None))


def other_parsers(res, text, want):
    """(a) a listing consumed step by step while ANOTHER SqParser object lists something else in between; (b) the listing of a text
    that a parser with a parse cache has parsed before."""
    api = snapshot.api()
    if _two[0] is None:
        pc = api.new_parser()
        pc.parse_cache = {}
        _two[0] = (api.new_parser(), api.new_parser(), pc)       # constructed, not cloned: whatever constructors share is shared
    pa, pb, pc = _two[0]
    if len(want) >= 2:        # the step-by-step probes need a listing with something between two steps
        if not _interleaved(res, text, want, pa, pb):
            return
    _after_cached_parse(res, text, want, pc)


def _interleaved(res, text, want, pa, pb):
    try:
        it = iter(pa.list_names(text))
        got = []
        first = next(it, None)
        if first is not None:
            got.append(first)
        inter = list(pb.list_names('zz + qq'))
        got.extend(it)
    except Exception as e:  # noqa
        got, inter = ['<%s>' % type(e).__name__], ['zz', 'qq']
    res.count('listings')
    if got != want or inter != ['zz', 'qq']:
        res.violation('listing:two-parsers', 'a listing consumed step by step is disturbed by a listing made on another SqParser object',
                      {'text': text, 'expected': repr(want), 'observed': repr(got) + ' / other parser: ' + repr(inter)})
        return False
    # (c) same parser: an older scan, consumed in part, is closed between two steps of the newer one
    R = e1.get_real()
    try:
        old = iter(R.parser.list_names('x1 + x2 + x3'))
        next(old, None)
        it = iter(R.parser.list_names(text))
        got = []
        first = next(it, None)
        if first is not None:
            got.append(first)
        if hasattr(old, 'close'):
            old.close()
        del old
        got.extend(it)
    except Exception as e:  # noqa
        got = ['<%s>' % type(e).__name__]
    res.count('listings')
    if got != want:
        res.violation('listing:older-scan-closed', 'closing an older, partly consumed listing disturbs the listing in progress on the same parser',
                      {'text': text, 'expected': repr(want), 'observed': repr(got)})
        return False
    return True


def _after_cached_parse(res, text, want, pc):
    if len(pc.parse_cache) > 2000:
        pc.parse_cache.clear()
    try:
        pc.parse(text)
    except Exception:  # noqa
        pass
    try:
        got = list(pc.list_names(text))
    except Exception as e:  # noqa
        got = ['<%s>' % type(e).__name__]
    res.count('listings')
    if got != want:
        res.violation('listing:after-cached-parse', 'list_names of a text that a caching parser has parsed before differs from the identifiers in the text',
                      {'text': text, 'expected': repr(want), 'observed': repr(got)})


def failed_listing(res, text, seen):
    """list_names raised (the text is lexically invalid) after reporting `seen`: an evaluation of that text may not ask the host
    for any other name."""
    R = e1.get_real()
    for kind, m in valuations(sorted(set(seen))):
        try:
            R.parser.eval(text, m, max_ops_evaluated=2000)
        except Exception:  # noqa
            pass
        res.count('evaluations')
        # names yielded before the listing raised count as reported (eval strips trailing white space the lexer rejects, e.g. 'a\f')
        bad = [k for k in m.asked if k not in seen and k not in IMPLICIT]
        if bad:
            res.violation('eval-asks-after-listing-failed', 'list_names rejects the text but an evaluation of it asks the host mapping for '
                          'names the listing had not reported before it raised',
                          {'text': text, 'valuation': kind, 'expected': f'only {sorted(set(seen))}', 'observed': f'asked for {bad[:5]}'})
        return


def tree_names(op, out):
    """Names occurring in a real tree (generic walk over dataclass fields)."""
    cn = type(op).__name__
    if cn in ('NameOp', 'AssignOp', 'ShortOp', 'CallOp'):
        out.add(op.name)
    d = getattr(op, '__dict__', None)
    if d:
        for v in d.values():
            _walk(v, out)


def _walk(v, out):
    if isinstance(v, (list, tuple)):
        for x in v:
            _walk(x, out)
    elif hasattr(v, '__dict__') and type(v).__module__.endswith('ast_ops'):
        tree_names(v, out)


def check_program(res, text, listed):
    """Oracles 2 and 3 for a text whose listing is `listed`."""
    R = e1.get_real()
    try:
        tree = R.parser.parse(text)
    except Exception:  # noqa
        return
    res.count('parsed')
    names = set()
    if tree is not None:
        tree_names(tree, names)
    missing = sorted(n for n in names if n not in listed and n not in IMPLICIT)
    if missing:
        res.violation('tree-name-unlisted', 'a name occurring in the parsed program is not reported by list_names',
                      {'text': text, 'expected': f'{missing} in the listing', 'observed': repr(listed)})
    allowed = set(listed) | IMPLICIT
    for kind, m in valuations(sorted(set(listed))):
        try:
            R.parser.eval(text, m, max_ops_evaluated=2000)
        except Exception:  # noqa
            pass
        res.count('evaluations')
        bad = [k for k in m.asked if k not in allowed]
        res.outcome(f'{kind}:{len(set(m.asked))}')
        if bad:
            res.violation(f'eval-asks-unlisted:{bad[0] if bad[0] in snapshot.api().FUNCTIONS else "other"}:{kind}',
                          'evaluation asked the host mapping for a name that list_names does not report',
                          {'text': text, 'valuation': kind, 'expected': f'only {sorted(allowed)}', 'observed': f'asked for {bad[:5]}'})
            return


def visit(res, v, symbols):
    listed = check_listing(res, v.text)
    res.count('strings')
    if listed is not None and v.mk == 'ok':
        check_program(res, v.text, listed)
        if len(symbols) >= 3:
            res.sample({'text': v.text, 'names': listed}, cap=2)


def work(task):
    kind = task[0]
    res = runner.Result()
    if kind == 'tok':
        _, alpha_name, prefix, L = task
        alphabet = T.SIGMA_Q if alpha_name == 'Q' else T.SIGMA_FULL
        e1.explore(prefix, alphabet, L, visit, res)
    elif kind == 'chr':
        _, prefix, M = task
        stack = [prefix]
        while stack:
            p = stack.pop()
            for c in T.SIGMA_CHAR:
                q = p + c
                res.count('strings')
                listed = check_listing(res, q)
                if listed:
                    check_program(res, q, listed)
                if len(q) < M:
                    stack.append(q)
    elif kind == 'sent':
        _, n, lo, hi = task
        cs = S.constructors()
        sks = _skeletons(n)
        for idx in range(lo, hi):
            for rot in range(0, len(S.LEAVES), 3):
                tree = S.build_statement(sks[idx], cs, S.LeafSupply(idx + rot))
                for par in (frozenset(), frozenset(S.composite_slots(tree))):
                    toks = S.render(tree, par)
                    for text in (' '.join(toks), ''.join(t if not (t[0].isalnum() or t[0] in '_%') else ' ' + t + ' ' for t in toks),
                                 ' '.join(toks) + ' # trailing x', '# lead y\n' + ' '.join(toks)):
                        res.count('strings')
                        listed = check_listing(res, text)
                        if listed is not None:
                            check_program(res, text, listed)
    elif kind == 'extra':
        for text in COMMENT_TEXTS:
            res.count('strings')
            listed = check_listing(res, text)
            if listed is not None:
                check_program(res, text, listed)
    return res


_sk = {}


def _skeletons(n):
    if n not in _sk:
        _sk[n] = list(S.gen_statements(n, S.constructors()))
    return _sk[n]


def main(tier, seed, t0):
    b = BOUNDS[tier]
    snapshot.api()
    e1.get_real()
    parent = runner.Result()
    tasks = [('extra',)]
    for name, alphabet, L in (('Q', T.SIGMA_Q, b['LQ']), ('F', T.SIGMA_FULL, b['LF'])):
        viable = e1.seeds(alphabet, 2, visit, parent)
        tasks += [('tok', name, p, L) for p in viable]
    for c in T.SIGMA_CHAR:
        check_listing(parent, c)
        tasks.append(('chr', c, b['M']))
    nsk = len(_skeletons(b['N']))
    step = max(1, nsk // 256)
    tasks += [('sent', b['N'], lo, min(nsk, lo + step)) for lo in range(0, nsk, step)]
    tasks = runner.rotate(tasks, seed)
    total = runner.run_tasks(work, tasks)
    total.merge(parent)
    n = total.n
    if not n.get('evaluations'):
        print('INTERNAL-ERROR: no evaluation with a recording mapping took place (vacuous)')
        return 2
    cov = {
        'states': n.get('strings', 0),
        'transitions': n.get('listings', 0) + n.get('evaluations', 0),
        'traces_validated_against_impl': n.get('listings', 0),
        'evaluations': n.get('listings', 0) + n.get('evaluations', 0),
        'distinct_nontrivial': len(total.outcomes),
        'rule': 'list_names (asked twice) on every string of the token spaces (SIGMA_Q <= %d, SIGMA_FULL <= %d), the character '
                'space (<= %d), a fixed list of comment/string/keyword adjacency texts and every statement with <= %d nodes (4 leaf '
                'rotations x bare/parenthesised x spaced/tight/commented); each parsable one is evaluated under 6 valuations of a '
                'recording host mapping. distinct_nontrivial = distinct name listings and (valuation, keys asked) classes.'
                % (b['LQ'], b['LF'], b['M'], b['N']),
        'exhaustive': True,
        'bounds': b,
    }
    return runner.finish(ID, tier, seed, total, cov, [
        'identifiers of a text are defined by the reference lexer (mc/model/reflex.py)',
        'the host mapping is observed through a dict subclass that logs __contains__/__getitem__/__setitem__/get',
    ], t0)


def replay(w):
    res = runner.Result()
    listed = check_listing(res, w['text'])
    if listed is not None:
        check_program(res, w['text'], listed)
    return ('REPRODUCED' if res.viol else 'HOLDS') + f"\n text={w['text']!r}\n " + repr({k: v[1][:1] for k, v in res.viol.items()})
