"""C07 - evaluation agrees with the reference semantics on every well-typed program.

Type-directed enumeration: every production of a typed expression grammar (all operators, index
and slice forms, conditional, lambdas, every deterministic builtin the model defines) with every
leaf of the hole's type (depth 1), then with one hole holding any depth-1 term (depth 2, other
holes over a reduced leaf set), wrapped in every statement form (expression, assignment, compound
assignment, index assignment, del, container mutation on program variables and on host objects,
lambda definition + call, multi-statement), each under two host names mappings.
Oracle: mc/model/refeval.py on the reference parser's tree: outcome class (value / ParserError /
other exception), the value (numbers as exact rationals and, where the model tracks it, their
printed form; bool distinct from number; containers structurally), the host names afterwards, and
the number of node evaluations.  Cases the model does not define are counted, not compared.
"""
import decimal
import re
from fractions import Fraction

from ..core import runner, snapshot, opwrap
from ..model import refparse, refeval as M

ID = 'C07'

BOUNDS = {
    'quick': dict(DEPTH2='reduced'),
    'thorough': dict(DEPTH2='full'),
}

LEAVES = {
    'N': ['0', '1', '2', '7', '2.5', '0.1', '10', '3.00', 'n', 'm', '(0 - 1)', '(0 - 2.5)', '12345678901234567890123456789.75',
          '99999999999999999999999999999'],
    'S': ['"ab"', '""', '"a b"', '"B"', 's', '"1"', '"a\u2028b"', '"x\x0cy\x85z\x0b"', '"p\rq\x1c\x1e"', '"é\U0001F600µ"'],
    'B': ['True', 'False'],
    'O': ['None'],
    'LN': ['[3, 1, 2]', '[]', '[1]', 'l', '[1, 1]'],
    'LS': ['["b", "a"]', 'ls'],
    'LL': ['[[1, 2], [3]]'],
    'D': ['{"a": 1, "b": 2}', '{}', 'd', '{1: 10}'],
    'I': ['0', '1', '2', '(0 - 1)', '1.5', '5', '(0 - 4)', 'True'],          # index-like numbers
    'K': ['"a"', '"x"', '"zz"', '1', 's'],                                       # dict keys
    'P': ['"l+"', '"(h)(e)"', '"[a-z]"', '"x|b"', '"L"', '"^h.*o$"', '"(a)|(b)"', '"z*"'],   # regex patterns of the modelled alphabet
}
REDUCED = {'N': ['2', '0.1', 'n'], 'S': ['"ab"', 's'], 'B': ['True', 'False'], 'O': ['None'], 'LN': ['[3, 1, 2]', 'l'], 'LS': ['["b", "a"]'],
           'LL': ['[[1, 2], [3]]'], 'D': ['{"a": 1, "b": 2}', 'd'], 'I': ['1', '(0 - 1)'], 'K': ['"a"', '"x"'], 'P': ['"l+"', '"(a)|(b)"']}

PRODUCTIONS = [
    ('N', '{N} + {N}'), ('N', '{N} - {N}'), ('N', '{N} * {N}'), ('N', '{N} / {N}'), ('N', '{N} ** 2'), ('N', '{N} ** 0'), ('N', '{N} ** 3'),
    ('N', '- {N}'), ('N', 'len({S})'), ('N', 'len({LN})'), ('N', 'len({D})'), ('N', '{LN}[{I}]'), ('N', '{D}[{K}]'), ('N', 'int({N})'),
    ('N', 'abs({N})'), ('N', 'floor({N})'), ('N', 'ceil({N})'), ('N', 'round({N})'), ('N', 'round({N}, 1)'), ('N', 'round({N}, 0)'),
    ('N', 'sum({LN})'), ('N', 'min({N}, {N})'), ('N', 'max({LN})'), ('N', 'min({LN})'), ('N', 'max({N}, {N}, 1)'),
    ('N', '{N} if {B} else {N}'), ('N', 'get({D}, {K}, {N})'), ('N', 'int({S})'), ('N', 'reduce({LN}, (a, b) => a + b)'),
    ('N', '{LL}[{I}][{I}]'), ('N', '{LN} | len'), ('N', '{S}.len()'), ('N', '({N})'), ('N', '{N} + {N} * {N}'), ('N', '{N} - {N} - {N}'),
    ('N', 'len({S}) / len({LN})'), ('N', 'len({LN}) / {N}'), ('N', 'len({S}) * len({S})'), ('N', 'len({S}) + len({LN}) - 1'),
    ('N', 'len({S}) ** 2'), ('N', '{N} / len({S})'), ('B', 'len({S}) / len({S}) == 1'), ('S', '{S} + len({S}) / 2'),
    ('A', 'match({S}, {P})'), ('A', 'match_groups({S}, {P})'), ('T', 'match_all({S}, {P})'), ('A', 'match({S}, {P}, "i")'),
    ('T', 'match_all({S}, {P}, "is")'), ('A', '{S} | match_groups({P}, "I")'), ('A', 'match({S} + {S}, {P}, None)'),
    ('S', 'pretty({N})'), ('S', 'pretty({LN})'), ('S', 'pretty({D})'), ('S', 'pretty({S})'), ('S', 'pretty({B})'), ('S', 'pretty({LS}, "-")'),
    ('S', 'pretty({D}, "; ")'), ('S', 'pretty({N} * 1000)'), ('S', 'pretty(123456 + {N})'), ('S', 'pretty(0 - 1234567)'), ('S', 'pretty({O})'),
    ('S', 'pretty(12345678, ",")'),
    ('S', 'str([0.0000001, {N}])'), ('S', 'str({LN})'), ('S', 'str({D})'), ('S', '{S} + [{N}, {S}]'), ('S', '{S} + {D}'), ('S', 'str(items({D}))'),
    ('S', 'str([1 / 3, 10 ** 28 * {N}, 0.00000001 * {N}])'), ('D', '⟦[{N}, 0.0000001]: 1⟧'), ('S', 'join([{LN}, [0.0000005]], "|")'),
    ('S', 'pretty([{LN}, 0.0000002])'), ('S', 'pretty(⟦"k": [0.0000001, {N}]⟧)'), ('S', 'str([None, True, {S}, [{N}]])'), ('S', 'str(enumerate({LS}))'),
    ('A', 'index_of({LN}, {N})'), ('A', 'get({D}, {K})'), ('A', '{N} if {B} else {S}'), ('A', '{B} and {N}'), ('A', '{N} or {S}'),
    ('A', '{O} or {N}'), ('A', '{S} and {O}'),
    ('S', '{S} + {S}'), ('S', '{S} + {N}'), ('S', '{S} + {B}'), ('S', '{S} + {O}'), ('S', 'str({N})'), ('S', 'str({B})'), ('S', 'str({O})'),
    ('S', 'lower({S})'), ('S', 'upper({S})'), ('S', 'strip({S})'), ('S', 'replace({S}, {S}, {S})'), ('S', 'join({LS}, {S})'),
    ('S', 'join({LN}, {S})'), ('S', 'join({LS})'), ('S', '{S}[{I}]'), ('S', '{S}[{I}:{I}]'), ('S', '{S}[:{I}]'), ('S', '{S}[{I}:]'),
    ('S', '{S}[::{I}]'), ('S', '{S} if {B} else {S}'), ('S', 'reversed({S})'), ('S', '{LS}[{I}]'), ('S', '{S} | upper | lower'),
    ('S', '{S}.replace("a", {S})'), ('S', 'strip({S}, "a")'), ('S', '{S} + {N} + {S}'),
    ('B', '{N} < {N}'), ('B', '{N} == {N}'), ('B', '{N} != {N}'), ('B', '{N} >= {N}'), ('B', '{N} > {N}'), ('B', '{N} <= {N}'),
    ('B', '{S} == {S}'), ('B', '{S} < {S}'), ('B', '{S} in {S}'), ('B', '{N} in {LN}'), ('B', '{S} in {D}'), ('B', '{S} in {LS}'),
    ('B', 'not {B}'), ('B', 'not {N}'), ('B', 'not {S}'), ('B', '{B} and {B}'), ('B', '{B} or {B}'), ('B', 'startswith({S}, {S})'),
    ('B', 'endswith({S}, {S})'), ('B', '{N} not in {LN}'), ('B', '{S} not in {S}'), ('B', '{N} == {S}'), ('B', '{LN} == {LN}'),
    ('B', '{B} == {N}'), ('B', '{O} == {O}'), ('B', '{O} != {N}'), ('B', '{D} == {D}'), ('B', '{N} < {N} and {N} < {N}'),
    ('B', 'not {B} or {B}'), ('B', '{S}.startswith({S})'), ('B', '{LN} != {LN}'),
    ('LN', '{LN} + {LN}'), ('LN', '{LN}[{I}:{I}]'), ('LN', '{LN}[:{I}]'), ('LN', '{LN}[{I}:]'), ('LN', '{LN}[::{I}]'), ('LN', '{LN}[:]'),
    ('LN', '{LN}[{I}::]'), ('LN', '{LN}[:{I}:]'),
    ('LN', 'map({LN}, v => v * 2)'), ('LN', 'map({LN}, v => v + {N})'), ('LN', 'filter({LN}, v => v > {N})'), ('LN', 'sorted({LN})'),
    ('LN', 'sorted({LN}, v => 0 - v)'), ('LN', 'sorted({LN}, None, True)'), ('LN', 'reversed({LN})'), ('LN', 'values({D})'),
    ('LN', '[{N}, {N}]'), ('LN', 'list({N}, {N})'), ('LN', '{LL}[{I}]'), ('LN', 'map({S}, c => len(c))'), ('LN', '[{N},]'),
    ('LN', '{LN} | map(v => v - 1) | filter(v => v)'), ('LN', 'map({LS}, len)'), ('LN', 'map({D}, (k, v) => v)'),
    ('LN', '{LN} if {B} else {LN}'), ('LN', 'map({LN}, v => v if v > 1 else 0 - v)'),
    ('LS', 'split({S}, {S})'), ('LS', 'split({S})'), ('LS', 'keys({D})'), ('LS', 'map({LN}, v => str(v))'), ('LS', 'sorted({LS})'),
    ('LS', '{LS} + {LS}'), ('LS', 'map({LS}, upper)'), ('LS', 'map({S}, c => c + c)'), ('LS', 'map({D}, (k, v) => k + v)'),
    ('LS', 'reversed({LS})'), ('LS', 'sorted({LS}, None, True)'), ('LS', 'sorted({LS}, v => len(v))'),
    # ties under the key: the sort is stable, also when reversed
    ('LS', 'sorted(["bb", "a", "cc", "dd", {S}], v => len(v), True)'), ('LS', 'sorted({LS} + ["x", "y"], v => 0, True)'),
    ('LN', 'sorted([1, 1.0, 0, 1.00, {N}], None, True)'), ('LN', 'sorted([2.0, 2, 2.00], v => 0 - v)'), ('T', 'sorted(items({D}), p => 0, True)'),
    ('T', 'sorted(enumerate({LS}), p => len(p[1]), True)'),
    ('D', '⟦{K}: {N}, {K}: {N}⟧'), ('D', 'dict({D})'), ('D', '⟦{N}: {N}⟧'), ('D', '⟦"k": {N}, "l": {LN}⟧'), ('D', '⟦{B}: {N}, {O}: {S}⟧'),
    ('T', 'items({D})'), ('T', 'enumerate({LN})'), ('T', 'enumerate({S})'), ('T', 'map({LN}, v => [v, {N}])'), ('T', '[{LN}, {D}, {S}]'),
    # trailing commas in the three call syntaxes: the arguments still count
    ('LS', '{S} | split({S}, )'), ('S', '{LS}.join({S}, )'), ('S', '{S}.replace({S}, {S},)'), ('N', 'round({N}, 1, )'), ('N', '{N} | round(1,)'),
    ('LN', '{LN} | sorted(None, True, )'), ('N', '{D}.get({K}, {N}, )'), ('LN', '{LN} | map(v => v + 1, )'), ('N', 'max({N}, {N}, )'),
    ('T', '⟦"a": {LN}, "b": {D}⟧'), ('T', 'map(items({D}), p => p[0])'), ('T', 'map(enumerate({LN}), p => p[1] * p[0])'),
]

STATEMENTS = [
    '{E}', 'x = {E}; x', 'x = {E}', 'x = {N}; x += {N}; x', 'x = {N}; x -= {N}; x', 'x = {N}; x *= {N}; x', 'x = {N}; x /= {N}; x',
    'x = {S}; x += {N}; x', 'x = {S}; x += {S}; x', 'x = {LN}; x += {LN}; x', 'x = {LN}; push(x, {N}); x', 'x = {LN}; pop(x)', 'x = {LN}; pop(x); x',
    'x = {LN}; pop(x, {I}); x', 'x = {LN}; x[{I}] = {N}; x', 'x = {D}; x[{K}] = {N}; x', 'x = {D}; x[{K}] += {N}; x',
    'x = {LN}; x[{I}] -= {N}; x', 'x = {LN}; x[{I}] *= {N}; x', 'x = {LN}; del x[{I}]; x', 'x = {D}; del x[{K}]; x',
    'x = {LN}; insert(x, {I}, {N}); x', 'x = {LN}; remove(x, {N}); x', 'x = {D}; remove(x, {S}); x', 'x = {LN}; x.push({N}); x | len',
    'push(l, {N}); l', 'd[{K}] = {N}; d', 'l[{I}] += {N}', 'del d[{K}]', 'n = {N}; n', 'n += {N}', 's += {S}; s',
    'f = v => v + {N}; f({N})', 'f = (a, b) => a + b; f({N}, {N})', 'f = v => v + n; n = {N}; f(1)', 'f = v => {N}; g = v => f(v) + v; g({N})',
    'f = v => v * 2; map({LN}, f)', 'f = v => x; x = {N}; f(0)', 'f = x => x + 1; x = {N}; f(1) + x', 'f = v => {LN}; f(0)[{I}]',
    'x = {LN}; y = x; push(y, {N}); x', 'x = {D}; y = x; y["q"] = {N}; [x, y]', 'x = {LL}; y = x[{I}]; push(y, {N}); x',
    'x = ⟦"1": 5, "a": 6, "True": 7, "None": 8⟧; remove(x, 1); remove(x, True); remove(x, None); x', 'x = ⟦"1": 5⟧; remove(x, "1"); x',
    'x = ⟦"2.5": 1⟧; remove(x, 2.5); [x, len(x)]',
    # a callback that changes the dict it is mapped over
    'x = ⟦"a": 1, "b": 2, "c": 3⟧; r = map(x, (k, v) => remove(x, "b")); x', 'x = ⟦"a": 1, "b": 2⟧; map(x, (k, v) => remove(x, "a")); [x, 1]',
    'x = ⟦"a": [1], "b": [2]⟧; map(x, (k, v) => push(x["b"], {N})); x', 'x = ⟦"a": 1, "b": 2⟧; map(x, (k, v) => [__setitem__(x, "b", v + 10), v][1])',
    'x = ⟦"a": 1, "b": 2⟧; map(x, (k, v) => [__setitem__(x, k + "z", v), 0][1]); x', 'x = {LN}; map(x, v => pop(x)); x',
    # one container occurring twice inside an assigned value stays ONE container in the copy
    'x = {LN}; y = [x, x]; y[0][0] = {N}; y', 'x = {LN}; y = ⟦"a": x, "b": x⟧; push(y["a"], {N}); [y, x]', 'x = [{LN}]; y = [x, [x]]; y[1][0][0][0] = 9; y',
    'x = {LL}; y = [x[0], x[0], x]; y[0][0] = {N}; y[2]', 'x = {LN}; z = [[x, x]]; z[0][1][0] += 1; z',
    'x = {N}\ny = x + {N}\n[x, y]', 'x = {LN};; y = {N};\nx + [y]', 'x = [{N}, {S}]; x[0] = x[1]; x', 'x = ⟦"a": {LN}⟧; x["a"][{I}] = {N}; x',
    'x = {N}; x = x + x; x = x * x; x', 'len = {N}; len + 1', 'l = {LN}; l', 'x = {LN}; x[{I}] = 1', 'x = {D}; x[{K}] += 1',
    'mk = a => (b => a + b); add = mk(1); a = {N}; add({N})', 'mk = a => (b => a + b); add = mk({N}); add(5)',
    'g = (a, h) => h(0); f = a => g(100, b => a + b); f({N})', 'mk = a => (b => a + b); mk({N})({N})' if False else 'mk = a => map([1, 2], b => a + b); mk({N})',
    'fact = k => 1 if k < 2 else fact(k - 1) * k; fact({I})', 'fib = k => k if k < 2 else fib(k - 1) + fib(k - 2); fib(6) + {N}',
    'f = v => map([v, v + 1], w => f(w - 2) if w > 1 else w); f(2)', 'x = [len({S}), 5]; x[0] /= len({S}) + 1; x', 'x = [len({S}), 5]; x[0] /= len({S}); x', 'x = [len({LN})]; x[0] /= len("abc"); x[0] + 1',
    'x = ⟦"k": len({S})⟧; x["k"] /= len("ab"); x', 'x = len({S}); x /= len("abc"); x + 1', 'x = len({S}) / len("abc"); [x, x * 3]',
    'x = ⟦"k": len({S})⟧; x["k"] /= len({LN}) + 1; x', 'x = len({S}); x /= len({S}) + 1; x', 'x = [len({S})]; x[0] -= len({S}); x[0] *= 2; x',
    'x = len({LN}); x *= x; x += len({S}); x', 'x = None; x', 'x = None; y = x; [x, y, x == None]', 'f = v => v == None; f(None)',
    '[1, None] | map(v => "<" + v)', 'x = [1]; r = x.push(2); "r=" + r', 'x = ⟦"a": None⟧; get(x, "a", 7)', 'x = ⟦"a": None⟧; x["a"]',
    'get(⟦"a": 0⟧, "a", {N})', 'get(⟦"a": False⟧, "a", {S})', 'x = False; x or {N}', 'x = 0; x', 'x = ""; x + {S}',
    # a call site evaluated before and after the builtin it names is rebound / shadowed; compound assignment to a name extends a list IN PLACE
    'g = v => len([1, v]); a = g(0); len = v => 99; [a, g(0)]', 'g = v => upper(v); a = g("q"); upper = v => lower(v); [a, g("Q")]',
    'a = map({LN}, v => str(v)); str = v => 0; [a, map({LN}, v => str(v))]', 'g = v => len(v); h = len => g("abc"); [g("ab"), h(v => 7), g("a")]',
    'x = {LN}; box = [0]; push(box, x); x += [{N}]; box', 'x = {LN}; box = ⟦"k": 0⟧; box2 = [box]; f = v => push(v, x); f(box2); x += [{N}]; [x, box2]',
    'l += [{N}]; l', 'x = [1]; f = v => [push(v, 5), x][1]; y = [x]; push(y, x); x += [2]; y', 's += {S}; x = [s]; s += "!"; [x, s]',
    'x = {LN}; y = [0]; insert(y, 0, x); x += {LN}; x -= 0 if False else 0' if False else 'x = {LN}; y = [0]; insert(y, 0, x); x += {LN}; y',
    # a literal evaluated more than once builds a new container each time
    'f = v => []; push(f(0), 1); push(f(0), 2); f(0)', 'f = v => ⟦⟧; __setitem__(f(0), "a", 1); f(0)', 'map([1, 2], v => push([], v))', 'f = v => [[]]; push(f(0)[0], 1); f(0)',
    'g = v => pop([1, 2, 3]); [g(0), g(0), g(0)]', 'g = v => push([1], v); [g(1), g(2)]', 'map([0, 0], v => pop([1, 2, 3]))', 'g = v => [[1], 2]; push(g(0)[0], 5); g(0)',
    'g = v => ⟦"a": 1, "b": 2⟧; remove(g(0), "a"); g(0)', 'map([1, 2], v => push([0], v))', 'g = v => insert([1, 2], 0, v); [g(7), g(8)]', 'f = v => [1, 2, 3] | pop; f(0) + f(0)',
    'u_undefined + {N}', '{N} + u_undefined', 'f_undefined({N})', '{B} or u_undefined', '{B} and f_undefined(1)', 'u_undefined += {N}',
    '[{N}, {LN}[9]]', '{D}["missing"]', 'pop([])', '⟦"a": 1⟧["a"] + {D}[{K}]',
]


def host_specs():
    """Two host names mappings, as (text, exponent) literals so that real and model values are built alike."""
    base = {'n': ('num', 3, 0), 'm': ('num', 15, -1), 's': ('str', 'hello'), 'l': ('list', [('num', 10, 0), ('num', 20, 0), ('num', 30, 0)]),
            'ls': ('list', [('str', 'x'), ('str', 'y')]), 'd': ('dict', [('x', ('num', 1, 0)), ('y', ('num', 2, 0))])}
    alt = {'n': ('num', 0, 0), 'm': ('num', 250, -2), 's': ('str', 'A b'), 'l': ('list', [('num', 5, -1)]),
           'ls': ('list', []), 'd': ('dict', [('a', ('num', 7, 0))])}
    return [('base', base), ('alt', alt)]


def build_real(spec):
    api = snapshot.api()
    k = spec[0]
    if k == 'num':
        return api.Decimal(f'{spec[1]}E{spec[2]}')
    if k == 'str':
        return spec[1]
    if k == 'list':
        return [build_real(x) for x in spec[1]]
    return {kk: build_real(v) for kk, v in spec[1]}


def build_model(spec):
    k = spec[0]
    if k == 'num':
        return M.plain(M.Num.triple(False, spec[1], spec[2]))
    if k == 'str':
        return spec[1]
    if k == 'list':
        return [build_model(x) for x in spec[1]]
    return {kk: build_model(v) for kk, v in spec[1]}


HOLE = re.compile(r'\{([A-Z]+)\}')


def holes(tpl):
    return HOLE.findall(tpl)


def fill(tpl, vals):
    """Literal braces of the language are written as ⟦ ⟧ in templates."""
    it = iter(vals)
    return HOLE.sub(lambda m: next(it), tpl).replace('⟦', '{').replace('⟧', '}')


def product(lists):
    if not lists:
        yield ()
        return
    for x in lists[0]:
        for rest in product(lists[1:]):
            yield (x,) + rest


def depth1_terms(leaves):
    """type -> list of expression texts with all holes filled by leaves."""
    out = {}
    for ty, tpl in PRODUCTIONS:
        hs = holes(tpl)
        for vals in product([leaves[h] for h in hs]):
            out.setdefault(ty, []).append(fill(tpl, vals))
    return out


def canon_real(v):
    if v is None:
        return None
    if isinstance(v, bool):
        return ('b', v)
    if isinstance(v, (int, float, decimal.Decimal)):
        try:
            return ('n', str(Fraction(v)))
        except (ValueError, OverflowError):
            return ('n-special', str(v))
    if isinstance(v, str):
        return ('s', v)
    if isinstance(v, list):
        return ['L'] + [canon_real(x) for x in v]
    if isinstance(v, tuple):
        return ['T'] + [canon_real(x) for x in v]
    if isinstance(v, dict):
        return ['D'] + sorted((k, canon_real(x)) for k, x in v.items())
    if isinstance(v, slice):
        return ('slice',)
    if callable(v):
        return ('fn',)
    return ('?', type(v).__name__)


def canon_model(v):
    if v is None:
        return None
    if isinstance(v, bool):
        return ('b', v)
    if isinstance(v, M.Num):
        return ('n', str(v.v))
    if isinstance(v, str):
        return ('s', v)
    if isinstance(v, list):
        return ['L'] + [canon_model(x) for x in v]
    if isinstance(v, tuple):
        if v and v[0] == 'STATEMENT-VALUE':
            return None
        return ['T'] + [canon_model(x) for x in v]
    if isinstance(v, dict):
        return ['D'] + sorted((k, canon_model(x)) for k, x in v.items())
    if isinstance(v, (M.Closure, M.Builtin)):
        return ('fn',)
    return ('?', type(v).__name__)


def texts_real(v, out):
    """printed forms of the Decimals in a value, in traversal order"""
    if isinstance(v, decimal.Decimal):
        out.append(str(v))
    elif isinstance(v, (list, tuple)):
        for x in v:
            texts_real(x, out)
    elif isinstance(v, dict):
        for k in sorted(v):
            texts_real(v[k], out)
    elif isinstance(v, (int, float)) and not isinstance(v, bool):
        out.append(None)


def texts_model(v, out):
    if isinstance(v, M.Num):
        out.append(v.text())
    elif isinstance(v, (list, tuple)):
        for x in v:
            texts_model(x, out)
    elif isinstance(v, dict):
        for k in sorted(v):
            texts_model(v[k], out)


class Cnt:
    def __init__(self):
        self.n = 0

    def enter(self, node, state):
        self.n += 1

    def leave(self, node, value):
        pass

    def fail(self, node, exc):
        pass


_parser = [None]


def _reset():
    _parser[0] = None


runner.TASK_INIT.append(_reset)


def parser():
    if _parser[0] is None:
        _parser[0] = snapshot.api().new_parser()
    return _parser[0]


# host-supplied trees (ast_names): evaluated in the order given, each bound before the next is evaluated, then the program
AST_CASES = [
    ([('base', '20'), ('total', 'base + 1')], 'total + base'),
    ([('inc', 'v0 = 1; v0 + n'), ('twice', 'inc * 2')], '[inc, twice, v0]'),
    ([('n', 'n + 1'), ('m', 'n * 10')], '[n, m]'),
    ([('f9', '5'), ('g9', 'f9 + u_undefined')], 'f9'),
    ([('a1', 'len(l)'), ('a2', 'a1 + len(s)'), ('a3', '[a1, a2]')], 'a3'),
    ([('k1', 'push(l, 7)'), ('k2', 'len(l)')], '[k2, l]'),
    ([('s', 's + "!"'), ('t2', 's + "?"')], 't2'),
]


def check_program(res, text, site, ast=None):
    api = snapshot.api()
    m = refparse.parse(text)
    if m[0] != 'ok':
        res.count('generator_produced_unparsable_text')
        return
    tree = m[1]
    if ast:
        # one tree: the entries as assignments in front of the program would be a different program (statements yield None,
        # assignments copy); the model evaluates each entry tree and binds its value, like eval() is documented to
        trees = [(k, refparse.parse(src)[1]) for k, src in ast]
    for hname, spec in host_specs():
        res.count('programs')
        # ---- model
        mnames = {k: build_model(v) for k, v in spec.items()}
        mach = M.Machine(mnames, known_builtins=[k for k in api.FUNCTIONS])
        try:
            if ast:
                for k, t in trees:
                    mnames[k] = mach.run(t)
            mv = mach.run(tree)
            mout = ('val', mv)
        except M.Undefined:
            res.count('undefined_by_model')
            continue
        except M.PErr:
            mout = ('PErr',)
        except M.OtherErr:
            mout = ('OtherErr',)
        except (RecursionError, ZeroDivisionError, OverflowError):
            res.count('undefined_by_model')
            continue
        # ---- real
        rnames = {k: build_real(v) for k, v in spec.items()}
        cnt = Cnt()
        try:
            kw = {'ast_names': {k: parser().parse(src) for k, src in ast}} if ast else {}
            with opwrap.traced(cnt):
                rv = parser().eval(text, rnames, max_ops_evaluated=100000, **kw)
            rout = ('val', rv)
        except api.ParserError as e:
            rout = ('PErr', str(e))
        except Exception as e:  # noqa
            rout = ('OtherErr', type(e).__name__, str(e))
        res.count('compared')
        w = {'program': text, 'host_names': hname}
        if ast:
            w['ast_names'] = [list(x) for x in ast]
        res.outcome(f'{site}:{mout[0]}')
        if mout[0] != rout[0]:
            res.violation(f'outcome:{site}:{mout[0]}->{rout[0]}', 'outcome class differs from the reference semantics',
                          dict(w, expected=mout[0] if mout[0] != 'val' else repr(canon_model(mout[1]))[:200], observed=repr(rout)[:200]))
            continue
        if mout[0] == 'val':
            stmt_val = isinstance(mv, tuple) and mv and mv[0] == 'STATEMENT-VALUE'
            if canon_model(mv) != canon_real(rv):
                sig = f'value:{site}' if not stmt_val else 'value:index-assignment-statement-yields-its-value'
                res.violation(sig, 'value differs from the reference semantics' if not stmt_val else
                              'an index assignment statement yields the assigned value instead of None',
                              dict(w, expected=repr(canon_model(mv))[:300], observed=repr(canon_real(rv))[:300]))
                continue
            tm, tr = [], []
            texts_model(mv, tm)
            texts_real(rv, tr)
            if len(tm) == len(tr):
                for a, b in zip(tm, tr):
                    if a is not None and b is not None and a != b:
                        res.violation(f'number-text:{site}', 'a number prints differently from the decimal the reference semantics give',
                                      dict(w, expected=a, observed=b))
                        break
        # names afterwards (also after an error)
        cm = canon_model({k: v for k, v in mnames.items() if not isinstance(v, (M.Closure, M.Builtin))})
        cr = canon_real({k: v for k, v in rnames.items() if not callable(v)})
        if cm != cr:
            res.violation(f'names:{site}', 'host names after evaluation differ from the reference semantics',
                          dict(w, expected=repr(cm)[:300], observed=repr(cr)[:300]))
            continue
        if mach.ops != cnt.n:
            res.violation(f'opcount:{site}', 'number of node evaluations differs from the reference semantics',
                          dict(w, expected=mach.ops, observed=cnt.n))


def site_of(tpl):
    s = re.sub(r'\{[A-Z]+\}', '_', tpl).replace('⟦', '{').replace('⟧', '}')
    return s[:40]


def work(task):
    res = runner.Result()
    opwrap.install()
    kind = task[0]
    if kind == 'ast':
        for ast, text in AST_CASES:
            check_program(res, text, 'ast_names:' + ast[-1][0], ast=ast)
        return res
    if kind == 'expr1':
        _, ty, tpl = task
        for vals in product([LEAVES[h] for h in holes(tpl)]):
            check_program(res, fill(tpl, vals), site_of(tpl))
        res.sample({'program': fill(tpl, [LEAVES[h][0] for h in holes(tpl)]), 'type': ty}, cap=1)
    elif kind == 'expr2':
        _, ty, tpl, mode = task
        inner = depth1_terms(REDUCED if mode == 'reduced' else LEAVES)
        hs = holes(tpl)
        for pos, h in enumerate(hs):
            src = inner.get(h if h not in ('I', 'K') else ('N' if h == 'I' else 'S'), [])
            for term in src:
                others = [REDUCED[x] for i, x in enumerate(hs) if i != pos]
                for vals in product(others):
                    vals = list(vals)
                    vals.insert(pos, '(' + term + ')')
                    check_program(res, fill(tpl, vals), site_of(tpl))
    elif kind == 'stmt':
        _, tpl, mode = task
        hs = holes(tpl)
        d1 = depth1_terms(REDUCED)
        pools = []
        for h in hs:
            if h == 'E':
                pool = []
                for ty in ('N', 'S', 'B', 'LN', 'LS', 'D', 'T', 'A'):
                    pool += LEAVES.get(ty, [])[:3] + d1.get(ty, [])[::(7 if mode == 'reduced' else 2)]
                pools.append(pool)
            else:
                pools.append(LEAVES[h] if len(hs) <= 2 else REDUCED[h] + LEAVES[h][:2])
        for vals in product(pools):
            check_program(res, fill(tpl, vals), 'stmt:' + site_of(tpl))
    return res


def main(tier, seed, t0):
    b = BOUNDS[tier]
    snapshot.api()
    tasks = []
    for ty, tpl in PRODUCTIONS:
        tasks.append(('expr1', ty, tpl))
        tasks.append(('expr2', ty, tpl, b['DEPTH2']))
    for tpl in STATEMENTS:
        tasks.append(('stmt', tpl, b['DEPTH2']))
    tasks.append(('ast',))
    tasks = runner.rotate(tasks, seed)
    total = runner.run_tasks(work, tasks)
    n = total.n
    if not n.get('compared'):
        print('INTERNAL-ERROR: nothing was compared (vacuous)')
        return 2
    cov = {
        'states': n.get('programs', 0),
        'transitions': n.get('compared', 0),
        'traces_validated_against_impl': n.get('compared', 0),
        'evaluations': n.get('programs', 0),
        'distinct_nontrivial': len(total.outcomes),
        'rule': '%d typed productions x all leaves of each hole type (depth 1) and x one hole holding any depth-1 term (%s leaf set; '
                'depth 2); %d statement / program templates x leaves and depth-1 terms; each program under 2 host names mappings. '
                'undefined_by_model = %d of %d programs (not compared). distinct_nontrivial = distinct (production, outcome class).'
                % (len(PRODUCTIONS), b['DEPTH2'], len(STATEMENTS), n.get('undefined_by_model', 0), n.get('programs', 0)),
        'exhaustive': True,
        'bounds': b,
    }
    return runner.finish(ID, tier, seed, total, cov, [
        'reference semantics: mc/model/refeval.py on the tree of mc/model/refparse.py; partial by design (undefined cases are counted)',
        'rand / shuffle (C19), regex builtins (C05), pretty and float() are outside the model',
    ], t0)


def replay(w):
    res = runner.Result()
    opwrap.install()
    check_program(res, w['program'], 'replay', ast=[tuple(x) for x in w['ast_names']] if w.get('ast_names') else None)
    return ('REPRODUCED' if res.viol else 'HOLDS') + f"\n {w['program']!r}\n " + repr({k: v[1][:1] for k, v in res.viol.items()})[:600]
