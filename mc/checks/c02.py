"""C02 - sandbox confinement: programs only touch plain data and do no I/O.

E4 closure over reachable value shapes.  Seeds: plain data of every shape class (None, bools,
numbers of the three host types, strings that are empty / plain / digit-like / attribute-like /
format-like / regex-like, empty and nested lists, dicts, tuples, slices), language lambdas and
the builtins themselves as first-class values.  Each round applies EVERY key of FUNCTIONS (read at
run time) to every argument tuple (arity 0-2 over one representative per known shape, arity 3
over a reduced set) in the three call syntaxes, plus every operator / index / slice / assignment /
conditional / lambda form, through real eval; result shapes not seen before join the frontier.
Invariant, on every node-evaluation return value (external tracer), the result and the final names:
built only from None, bool, int, float, Decimal, str, list, tuple, dict, slice, a function that IS a
FUNCTIONS value, or a closure made by a lambda node; and no forbidden audit event fires during eval.
"""
import decimal
import io
import itertools
import sys

from ..core import runner, snapshot, opwrap

ID = 'C02'

BOUNDS = {
    'quick': dict(ROUNDS=2, ARITY3=6, NEW_PER_ROUND=30),
    'thorough': dict(ROUNDS=4, ARITY3=12, NEW_PER_ROUND=120),
}

FORBIDDEN_PREFIX = ('os.', 'subprocess.', 'socket.', 'shutil.', 'ctypes.', 'urllib.', 'http.', 'ftplib.', 'mmap.', 'marshal.',
                    'pickle.', 'code.', 'winreg.', 'webbrowser.', 'glob.', 'pty.', 'fcntl.', 'resource.', 'signal.', 'syslog.',
                    'tempfile.', 'sqlite3.', 'smtplib.', 'telnetlib.', 'imaplib.', 'nntplib.', 'poplib.')
FORBIDDEN_EXACT = ('open', 'import', 'exec', 'compile', 'builtins.input', 'builtins.breakpoint', 'cpython.run_command',
                   'cpython.run_file', 'cpython.run_module', 'sys._getframe', 'sys.settrace', 'sys.setprofile', 'gc.get_objects',
                   'gc.get_referrers', 'code.__new__', 'function.__new__')

_armed = [False]
_events = []
_hook_installed = [False]


def _hook(event, args):
    if _armed[0]:
        if event in FORBIDDEN_EXACT or event.startswith(FORBIDDEN_PREFIX):
            _events.append((event, repr(args)[:120]))


def install_hook():
    if not _hook_installed[0]:
        sys.addaudithook(_hook)
        _hook_installed[0] = True


def seeds():
    api = snapshot.api()
    D = api.Decimal
    return {
        'none': None, 'true': True, 'false': False,
        'd0': D(0), 'd1': D(1), 'd-1': D(-1), 'd2.5': D('2.5'), 'i7': 7, 'f.5': 0.5,
        's': '', 'sab': 'ab', 's12': '12', 'sattr': '__class__', 'sfmt': '{0.__class__}', 'spct': '%s %(x)s', 'sre': '(a)(b)|.*',
        'ssp': 'a b,c', 'sdunder': '__getitem__',
        'l': [], 'l12': [D(1), D(2)], 'lab': ['a', 'b'], 'll': [[D(1)], []], 'lt': [('a', D(1))], 'lmix': [None, 'a', D(1), [True]],
        'd': {}, 'da': {'a': D(1)}, 'dn': {'a': {'b': [D(1)]}}, 'dattr': {'__class__': D(1), 'keys': 'x'},
        't': (D(1), 'a'), 'sl': slice(0, 1),
    }


def long_seeds():
    api = snapshot.api()
    D = api.Decimal
    return {'slong': 'ab ' * 4000, 'llong': [D(1)] * 300, 'sdeep': [[[[[[[[D(1)]]]]]]]], 'dlong': {str(i): D(i) for i in range(200)}}


LAMBDA_ARGS = ['v => v', 'v => 1', '(a, b) => a', 'v => [v]', '(a, b) => {"k": a}']
REDUCED3 = ['sab', 'd1', 'l12', 'sre', 'da', 'none', 'sattr', 'sfmt', 'lt', 'dn', 't', 'true', 's12', 'lab']   # in order of preference


def coarse(v):
    if v is None or isinstance(v, bool):
        return 'scalar'
    if isinstance(v, (int, float, decimal.Decimal)):
        return 'num'
    if isinstance(v, str):
        return 'str'
    if isinstance(v, (list, tuple, dict, slice)):
        return type(v).__name__
    if callable(v):
        return 'callable'
    return 'OTHER:' + type(v).__name__


def shape(v, depth=0):
    """Abstraction that decides whether a result is a NEW shape: scalars by class (strings by the classes that matter
    for confinement), containers by kind + emptiness + the set of coarse kinds of their elements (one level)."""
    if v is None or isinstance(v, bool):
        return repr(v)
    if isinstance(v, (int, float, decimal.Decimal)):
        return type(v).__name__
    if isinstance(v, str):
        if v == '':
            return 'str:empty'
        if v.isdigit():
            return 'str:digits'
        if '__' in v:
            return 'str:dunder'
        if '{' in v or '%' in v:
            return 'str:format'
        return 'str:ws' if ' ' in v or '\n' in v else 'str'
    if isinstance(v, (list, tuple)):
        return f'{type(v).__name__}[' + ','.join(sorted({coarse(x) for x in v[:8]})) + (']' if v else 'empty]')
    if isinstance(v, dict):
        return 'dict{' + ','.join(sorted({coarse(x) for x in list(v.values())[:8]})) + ('}' if v else 'empty}')
    if isinstance(v, slice):
        return 'slice'
    if callable(v):
        return 'callable'
    return 'OTHER:' + type(v).__name__


PLAIN = (type(None), bool, int, float, decimal.Decimal, str)


class Confine:
    """Tracer + deep walk implementing the invariant."""

    def __init__(self, res, program, argdesc):
        api = snapshot.api()
        self.res = res
        self.program = program
        self.argdesc = argdesc
        self.fn_ids = {id(f) for f in api.FUNCTIONS.values()}
        self.lambda_ids = set()
        self.keep = []
        self.reported = False

    def enter(self, node, state):
        pass

    def fail(self, node, exc):
        pass

    def leave(self, node, value):
        if type(node).__name__ == 'LambdaOp' and callable(value):
            self.lambda_ids.add(id(value))
            self.keep.append(value)
        self.check(value, 'node:' + _site(node))

    def check(self, v, where):
        bad = self.find_bad(v, 0, set())
        if bad is not None and not self.reported:
            self.reported = True
            self.res.violation(f'leak:{type(bad).__module__}.{type(bad).__name__}:{where.split(":", 1)[1] if ":" in where else where}',
                               'a value that is not plain data / a builtin / a language lambda became reachable',
                               {'program': self.program, 'args': self.argdesc, 'where': where,
                                'expected': 'None, bool, number, str, list, tuple, dict, slice, builtin or lambda',
                                'observed': f'{type(bad).__module__}.{type(bad).__name__}: {repr(bad)[:100]}'})

    def find_bad(self, v, depth, seen):
        if isinstance(v, PLAIN):
            if type(v) in PLAIN or isinstance(v, decimal.Decimal) or type(v).__name__ == 'Decimal':
                return None
            return v
        if id(v) in seen or depth > 8:
            return None
        seen.add(id(v))
        if type(v) in (list, tuple):
            for x in v:
                b = self.find_bad(x, depth + 1, seen)
                if b is not None:
                    return b
            return None
        if type(v) is dict:
            for k, x in v.items():
                b = self.find_bad(k, depth + 1, seen)
                if b is None:
                    b = self.find_bad(x, depth + 1, seen)
                if b is not None:
                    return b
            return None
        if type(v) is slice:
            for x in (v.start, v.stop, v.step):
                b = self.find_bad(x, depth + 1, seen)
                if b is not None:
                    return b
            return None
        if id(v) in self.fn_ids or id(v) in self.lambda_ids:
            return None
        return v


def _site(node):
    cn = type(node).__name__
    if cn == 'CallOp':
        return f'call {node.name}'
    if cn in ('BinOp', 'UnaryOp', 'ShortOp'):
        return f'{cn} {node.op}'
    return cn


_parser = [None]


def _reset():
    _parser[0] = None


runner.TASK_INIT.append(_reset)


def parser():
    if _parser[0] is None:
        _parser[0] = snapshot.api().new_parser()
    return _parser[0]


def run_program(res, text, names, argdesc):
    """Evaluate with tracer + audit hook armed; returns result value or None."""
    import copy
    try:
        names = copy.deepcopy(names)
    except Exception:  # noqa
        pass
    conf = Confine(res, text, argdesc)
    del _events[:]
    out = None
    parser()            # constructed (tables generated) before the audit monitor is armed
    _armed[0] = True
    so, se = sys.stdout, sys.stderr
    cap_o, cap_e = io.StringIO(), io.StringIO()
    sys.stdout, sys.stderr = cap_o, cap_e
    try:
        with opwrap.traced(conf):
            out = parser().eval(text, names, max_ops_evaluated=300)
    except Exception:  # noqa
        out = None
    finally:
        _armed[0] = False
        sys.stdout, sys.stderr = so, se
    if cap_o.getvalue() or cap_e.getvalue():
        res.violation('io:writes-to-stdout-or-stderr', 'evaluation wrote to the process\'s standard streams',
                      {'program': text, 'args': argdesc, 'expected': 'no output', 'observed': repr((cap_o.getvalue() + cap_e.getvalue())[:200])})
    res.count('evals')
    if _events:
        ev = _events[0]
        res.violation(f'audit:{ev[0]}', 'evaluation performed file / process / network / import / dynamic-code activity',
                      {'program': text, 'args': argdesc, 'expected': 'no such audit event', 'observed': repr(_events[:3])})
    conf.check(out, 'result:')
    for k, v in names.items():
        conf.check(v, f'names:{k}')
    return out


def programs_for(fname, argn):
    """Three call syntaxes."""
    out = [f'{fname}({", ".join(argn)})']
    if argn:
        rest = ', '.join(argn[1:])
        out.append(f'{argn[0]}.{fname}({rest})')
        out.append(f'{argn[0]} | {fname}({rest})' if rest else f'{argn[0]} | {fname}')
    return out


OPERATOR_FORMS = [
    'a0 + a1', 'a0 - a1', 'a0 * a1', 'a0 / a1', 'a0 ** a1', 'a0 == a1', 'a0 != a1', 'a0 < a1', 'a0 >= a1', 'a0 in a1', 'a0 not in a1',
    'a0 and a1', 'a0 or a1', '- a0', 'not a0', 'a0 if a1 else a0', 'a0[a1]', 'a0[a1:]', 'a0[:a1]', 'a0[::a1]', 'a0[a1:a1]',
    'x = a0; x[a1] = a0; x', 'x = a0; x[a1] += a1; x', 'x = a0; x += a1; x', 'x = a0; x *= a1; x', 'x = a0; del x[a1]; x',
    '[a0, a1]', '{a0: a1}', '{"k": a0, a1: a0}', 'f = v => a0; f(a1)', 'f = (p, q) => p[q]; f(a0, a1)', 'x = a0; y = [x, a1]; y[0]',
    'a0[a1][a1]', 'a0 + a1 + a0', 'x = a0; x.k = 1' if False else 'a0 | str', 'str(a0) + str(a1)', 'a0 | pretty', 'a0[a1] | str',
]


FAILING_SOURCES = ['1 +', '(1', '1 )', 'a b', '1 $ 2', 'for', 'x = = 1', '[1, 2', '{"a": }', 'del x', '"abc', 'a.b', '1 / 0', 'u_undefined',
                   'f_undefined(1)', 'x = [1]; x[5]', 'pop([])', '1 +\n2', 'a = 1\nb = )', 'while', '%a', '\\', 'x.y.z', '1 2 3']


def foreign_names():
    """Names a program might try that are NOT in the function table: attributes of the plain types and Python builtins."""
    import builtins
    api = snapshot.api()
    names = set()
    for t in (str, list, dict, tuple, int, float, decimal.Decimal, bool, type(None), slice, object, type, type(len)):
        names.update(dir(t))
    names.update(dir(builtins))
    names.update(['__builtins__', '__import__', '__globals__', '__code__', '__closure__', '__self__', '__func__', '__dict__', '__mro__',
                  '__subclasses__', '__bases__', 'f_globals', 'gi_frame', 'cr_frame', 'func_globals', 'os', 'sys', 'subprocess', 'regex',
                  'random', 'math', 'copy', 'functools', 'FUNCTIONS', 'state', 'names', 'scopes', 'self'])
    return sorted(n for n in names if n not in api.FUNCTIONS and n.isidentifier() and n not in ('and', 'or', 'not', 'in', 'if', 'else',
                  'True', 'False', 'None', 'del', 'for', 'while', 'break', 'continue', 'def', 'raise', 'elif'))


def work(task):
    res = runner.Result()
    install_hook()
    opwrap.install()
    api = snapshot.api()
    kind = task[0]
    sd = seeds()
    if kind == 'foreign':
        _, chunk = task
        firsts = ['sab', 'sfmt', 'l12', 'dn', 'd1', 'i7', 'f.5', 't', 'none', 'true', 'sl', 'dattr']
        for name in chunk:
            for text in (name, f'x = {name}; x', f'{name}()', f'[{name}]', f'map([1], {name})', f'{{"k": {name}}}'):
                run_program(res, text, {}, [name])
            for fa in firsts:
                nm = {'a0': sd[fa], 'a1': sd['sab'], '%a0%': sd[fa]}
                for text in (f'{name}(a0)', f'a0.{name}()', f'a0 | {name}', f'a0.{name}(a1)', f'a0 | {name}(a1)', f'{name}(a0, a1)',
                             f'a0.{name}(a1, a0)', f'map([a0], {name})', f'map([a0], v => v.{name}())',
                             # %...% names that spell an attribute path from a bound name
                             f'%a0.{name}%', f'x = %a0.{name}%; x', f'%a0.{name}%()', f'%a0.{name}.__class__%', f'%a0[{name}]%',
                             f'%a0.0.{name}%', f'%a0.a.{name}%'):
                    run_program(res, text, nm, [name, fa])
            res.count('foreign_names')
        return res
    if kind == 'long':
        ls = long_seeds()
        for fname in sorted(api.FUNCTIONS):
            for la, a0 in ls.items():
                for second in (None, 'sab', 'sre', 'd1', 'λ0'):
                    names = {'a0': a0}
                    argn = ['a0']
                    if second is not None:
                        if second.startswith('λ'):
                            argn.append(LAMBDA_ARGS[0])
                        else:
                            names['a1'] = sd[second]
                            argn.append('a1')
                    for text in programs_for(fname, argn)[:2]:
                        run_program(res, text, names, [la, second])
        return res
    if kind == 'failing':
        # programs on whose way an internal failure happens that the library may be tempted to report somewhere: a regex call that
        # really times out, a fractional index, arithmetic signals
        bomb = {'s': 'a' * 40 + 'b', 'l': [1, 2, 3]}
        for text in ('match(s, "(a|aa)+$")', 'match_all(s, "(a|aa)+$")', 'match_groups(s, "((a|aa)+)$", "i")', 'l[1.5]', 'l[0 - 0.5]',
                     '1 / 3 * 3', '10 ** 99 * 10 ** 99', '0.1 ** 0.5', 'round(2.675, 2)', 'int("12x")', 'float("nan") + 1', 'sorted([1, "a"])'):
            run_program(res, text, dict(bomb), ['internal failure path'])
        for text in FAILING_SOURCES:
            run_program(res, text, {'x': 1}, ['failing source'])
            run_program(res, text, {}, ['failing source'])
        return res
    if kind == 'fn':
        _, fname, arity, pool, fresh, mode = task
        # pool: list of (label, python-expression or seed label); fresh: labels that must appear at least once (None = any)
        vals = {}
        for label, spec in pool:
            vals[label] = sd[spec] if spec in sd else eval(spec, {'D': api.Decimal, 'Decimal': api.Decimal})   # noqa
        labels = [l for l, _ in pool]
        lam = ['λ' + str(i) for i in range(len(LAMBDA_ARGS))] if mode != 'nolam' else []
        fnv = ['β' + k for k in ('len', 'str', 'dict', 'map', 'max', 'keys', '__getitem__', 'rand')] if mode == 'full' else []
        universe = labels + lam + fnv
        for combo in itertools.product(universe, repeat=arity):
            if fresh is not None and arity and not any(c in fresh for c in combo):
                continue
            names = {}
            argn = []
            for i, c in enumerate(combo):
                if c.startswith('λ'):
                    argn.append(LAMBDA_ARGS[int(c[1:])])
                elif c.startswith('β'):
                    argn.append(c[1:])
                else:
                    names[f'a{i}'] = vals[c]
                    argn.append(f'a{i}')
            for text in programs_for(fname, argn):
                out = run_program(res, text, names, list(combo))
                if out is not None:
                    s = shape(out)
                    res.outcome(s)
                    if 'OTHER' not in s and 'callable' not in s:
                        res.bag.add((s, _pyrepr(out)))
        res.count('function_arity_pairs')
    elif kind == 'ops':
        _, pool, fresh = task
        vals = {}
        for label, spec in pool:
            vals[label] = sd[spec] if spec in sd else eval(spec, {'D': api.Decimal, 'Decimal': api.Decimal})   # noqa
        labels = [l for l, _ in pool]
        for a, b in itertools.product(labels, repeat=2):
            if fresh is not None and a not in fresh and b not in fresh:
                continue
            for text in OPERATOR_FORMS:
                out = run_program(res, text, {'a0': vals[a], 'a1': vals[b]}, [a, b])
                if out is not None:
                    s = shape(out)
                    res.outcome(s)
                    if 'OTHER' not in s and 'callable' not in s:
                        res.bag.add((s, _pyrepr(out)))
        # builtins as first-class values
        for f in sorted(api.FUNCTIONS):
            for text in (f'x = {f}; x', f'[{f}]', f'x = {f}; y = x; str(y)', f'{{"f": {f}}}', f'map([{f}], v => v)', f'{f} | str',
                         f'x = [{f}]; x[0]', f'{f} == {f}', f'sorted([1, 2], {f})', f'map([1, "a"], {f})', f'reduce([1, 2, 3], {f})'):
                run_program(res, text, {}, [f])
    return res


def _pyrepr(v):
    """Python expression that rebuilds a plain value (Decimals via D('..'))."""
    if isinstance(v, decimal.Decimal):
        return f"D('{v}')"
    if isinstance(v, (list, tuple)):
        inner = ', '.join(_pyrepr(x) for x in v)
        return f'[{inner}]' if isinstance(v, list) else (f'({inner},)' if len(v) == 1 else f'({inner})')
    if isinstance(v, dict):
        return '{' + ', '.join(f'{k!r}: {_pyrepr(x)}' for k, x in v.items()) + '}'
    if isinstance(v, slice):
        return f'slice({_pyrepr(v.start)}, {_pyrepr(v.stop)}, {_pyrepr(v.step)})'
    if isinstance(v, float):
        return repr(v) if v == v and v not in (float('inf'), float('-inf')) else f"float('{v}')"
    return repr(v)


def main(tier, seed, t0):
    b = BOUNDS[tier]
    api = snapshot.api()
    install_hook()
    sd = seeds()
    fns = sorted(api.FUNCTIONS)
    known = {}
    for label, v in sd.items():
        known.setdefault(shape(v), (label, label))
    pool = sorted(set(known.values()))
    # the seed pool keeps every seed (several seeds may share a shape: all are used in round 1)
    pool = [(l, l) for l in sorted(sd)]
    total = runner.Result()
    fresh = None
    rounds = 0
    while rounds < b['ROUNDS']:
        rounds += 1
        tasks = []
        for f in fns:
            tasks.append(('fn', f, 0, pool, None, 'full')) if rounds == 1 else None
            tasks.append(('fn', f, 1, pool, fresh, 'full'))
            tasks.append(('fn', f, 2, pool, fresh, 'full' if rounds == 1 else 'lam'))
            small = [p for name in REDUCED3 for p in pool if p[0] == name][:b['ARITY3']] + ([p for p in pool if fresh and p[0] in fresh][:6])
            tasks.append(('fn', f, 3, small, fresh, 'lam' if rounds == 1 else 'nolam'))
        tasks.append(('ops', pool, fresh))
        if rounds == 1:
            fn_ = foreign_names()
            tasks += [('foreign', fn_[i:i + 12]) for i in range(0, len(fn_), 12)]
            tasks.append(('failing',))
            tasks.append(('long',))
        tasks = runner.rotate([t for t in tasks if t], seed)
        r = runner.run_tasks(work, tasks, selftest=(rounds == 1))
        new = {}
        for s, rep in sorted(r.bag):
            if s not in known and s not in new and len(rep) < 400:
                new[s] = rep
        r.bag = set()
        total.merge(r)
        total.count('rounds')
        if not new:
            break
        add = sorted(new.items())[:b['NEW_PER_ROUND']]
        total.count('new_shapes_dropped_by_cap', max(0, len(new) - len(add)))
        fresh = set()
        for i, (s, rep) in enumerate(add):
            label = f'r{rounds}_{i}'
            known[s] = (label, rep)
            pool.append((label, rep))
            fresh.add(label)
    fix = rounds < b['ROUNDS'] or not fresh
    total.sample({'program': 'a0 | match_groups(a1)', 'args': ['ssp', 'sre']})
    total.sample({'program': 'x = a0; x[a1] = a0; x', 'args': ['dn', 'sattr']})
    n = total.n
    cov = {
        'states': len(known),
        'transitions': n.get('evals', 0),
        'traces_validated_against_impl': n.get('evals', 0),
        'evaluations': n.get('evals', 0),
        'distinct_nontrivial': len(total.outcomes),
        'rule': ('value-shape closure: %d seeds + 5 lambdas + 8 builtins-as-values; every key of FUNCTIONS (%d found at run time) x arity '
                 '0..2 over the whole pool and arity 3 over a reduced pool, three call syntaxes; %d operator / index / slice / assignment / '
                 'lambda forms over all pairs; 11 first-class-builtin forms per builtin; every identifier that is an attribute of a plain '
                 'type or a Python builtin but NOT in the table (%d names) as variable, value and call in all syntaxes on 12 first '
                 'arguments; %d failing sources (audit events on error paths); %d round(s); new result shapes (container kind + set of coarse element kinds, with '
                 'string / number classes) join the pool (cap %d per round). distinct_nontrivial = distinct result shapes.'
                 % (len(sd), len(fns), len(OPERATOR_FORMS), len(foreign_names()), len(FAILING_SOURCES), rounds, b['NEW_PER_ROUND'])),
        # complete for the rounds run unless the per-round cap on new shapes was hit (then the dropped shapes were not fed back)
        'exhaustive': not n.get('new_shapes_dropped_by_cap'),
        'caps_hit': {'new_shapes_dropped_by_cap': n.get('new_shapes_dropped_by_cap', 0)},
        'fixpoint_reached': bool(fix and not n.get('new_shapes_dropped_by_cap')),
        'rounds': rounds,
        'bounds': b,
    }
    return runner.finish(ID, tier, seed, total, cov, [
        'the host binds plain data only; builtins are recognised by identity with a FUNCTIONS value, lambdas by the LambdaOp node that '
        'returned them',
        'audit events watched: open, import, exec, compile, os.*, subprocess.*, socket.*, shutil.*, ctypes.* and similar, only while '
        'eval runs',
    ], t0)


def replay(w):
    res = runner.Result()
    install_hook()
    opwrap.install()
    api = snapshot.api()
    sd = seeds()
    names = {}
    for i, a in enumerate(w.get('args', [])):
        if a in sd:
            names[f'a{i}'] = sd[a]
    run_program(res, w['program'], names, w.get('args'))
    return ('REPRODUCED' if res.viol else 'HOLDS (or needs a value from a later round: re-run the check)') + \
        f"\n {w['program']!r} args={w.get('args')}\n " + repr({k: v[0] for k, v in res.viol.items()})
