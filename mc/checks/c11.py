"""C11 - history independence: every call depends only on its own arguments.

Explicit-state BFS over call sequences on ONE SqParser (world A).  Alphabet: parse / eval /
list_names (consumed fully, abandoned after one name, never started) over valid, lexically
invalid, syntactically invalid (line 3, unbalanced, premature end), failing (runtime, inside
a lambda body, ops limit), reserved-word and stateful sources, with a fresh names mapping and
two persistent ones (P, Q).  Reference (world B): the same calls, each on a brand-new pristine
parser clone, with its own copies of P and Q evolving in parallel.  Per call the result or the
exception (class and message) must be equal; the persistent mappings must stay equal; after a
history that ends in an exception a fixed battery of calls must give the pristine answers.
States are deduplicated on a generic dump of everything reachable from the parser, its lexer,
its LALR driver and the persistent mappings (not a hand-picked field list).
"""
import copy
import hashlib
import os
import sys
import types

from ..core import runner, snapshot, clone

ID = 'C11'

BOUNDS = {
    'quick': dict(DEPTH=2, DEEP=3),
    'thorough': dict(DEPTH=3, DEEP=4),
}

PARSE_SRC = ['1 + 2', '[1,\n2]\n3', '1 $ 2', 'a = 1\nb = 2\nc = = 3', '(1', '1)', '1 +', 'for', 'x = 1; y = (2', '{"a": [1,\n 2}',
             'a = 1 +\n2', 'x =\n"q"', 'x + %abc', '- 1']
EVAL_SRC = ['1 + 2', '[1,\n2]\n3', '1 $ 2', 'a = 1\nb = 2\nc = = 3', '(1', '1 +', '1 / 0', ('1 + 1 + 1 + 1', 3), 'for',
            'x = 1', 'x += 1', 'x', 'push(l, 1)', 'f = v => v + u', 'f(1)', 'map(l, v => v + u)', 'u', 'l', 'x = [l]; x[0]',
            'total = 41\nboost = = 2', 'total + 1', ('map(l, v => v * 2)', 4), 'u = 3',
            'a = 1 +\n2', '- 1', '[7]', '10 % 20', 'keys({2.5: "a"})', 'keys({2.50: "b"})', '{1: 1, 1.0: 2}', '1 / 3', '2 ** 0.5',
            'round(1 / 0.0000000000000000000000000000000000000001 ** 99999999)', '0 ** 0', '(0 - 8) ** 0.5', '(0 - 2) ** 1.5 + 1', 'round(x9, 2)', 'round(float("inf"))', 'round(float("nan"), 2)', 'floor(float("-inf"))', 'int(float("nan"))', '10 ** 1000000000', 'len = 7; len',
            'str(h9) | len', '"s" + h9', 'pretty(h9)', 'join([h9], ",")', '{h9: 1}', 'int("1" + "0" * 5000) | str | len']
NAMES_SRC = ['price * qty + fee(region)', 'alpha + beta ? gamma', 'a\n(b,\nc', '"s" # x', '%a b% . c ( d']
NAMES_MODES = ['full', 'abandon1', 'unstarted', 'deferred']
OMITTED_SRC = ['x = 1', 'x', 'x += 1', 'len = 7; len', 'len("ab")', 'u = 3', 'u', 'f = v => v + 1', 'f(1)', '"a  b" | len', '"a b" | len', 'pop([1, 2, 3])', '[1, 2] | push(3) | len']
NAMES_KINDS = ['fresh', 'P', 'Q', 'none']
BATTERY = [('parse', 'a\nb'), ('eval', '[1,\n2] + [3]', 'fresh', None), ('names', 'p + q\nr', 'full'),
           ('eval', 'x = 2; x * y', 'B', None), ('parse', '{"k": (1,\n2)}\nz')]


def actions():
    acts = []
    for s in PARSE_SRC:
        acts.append(('parse', s))
    for s in EVAL_SRC:
        src, budget = (s if isinstance(s, tuple) else (s, None))
        for nk in NAMES_KINDS:
            acts.append(('eval', src, nk, budget))
    for s in NAMES_SRC:
        for m in NAMES_MODES:
            acts.append(('names', s, m))
    for s in OMITTED_SRC:
        acts.append(('eval', s, 'omitted', None))     # eval(expr) with the names argument left out altogether
    return acts


def fresh_persistent():
    api = snapshot.api()
    D = api.Decimal
    return {'P': {'l': [D(1)]}, 'Q': {'l': [D(5)], 'u': D(10)}, 'B': {'y': D(4)}}


def show(v, depth=0):
    """Identity-free rendering of a result / names value; functions by role."""
    if isinstance(v, (list, tuple)):
        return [type(v).__name__] + [show(x, depth + 1) for x in v]
    if isinstance(v, dict):
        return ['dict'] + [(k, show(x, depth + 1)) for k, x in v.items()]
    if callable(v):
        return 'function'
    if isinstance(v, int) and not isinstance(v, bool) and v.bit_length() > 10000:
        return f'int:{v.bit_length()} bits:{hashlib.sha1(hex(v).encode()).hexdigest()[:12]}'     # repr() is limited to 4300 digits
    if type(v).__module__.endswith('ast_ops'):
        return dump_obj(v)
    return f'{type(v).__name__}:{v!r}'


def dump_obj(o, memo=None, depth=0):
    """Canonical dump of an object graph: every container / object is rendered once, later references
    to it become ('ref', n) with n its first-visit number (so the dump is linear in the graph size)."""
    if memo is None:
        memo = {}
    if isinstance(o, (str, int, float, bool, type(None), bytes)):
        return repr(o)
    if isinstance(o, (types.FunctionType, types.BuiltinFunctionType, types.MethodType, types.ModuleType, type)):
        return f'<{type(o).__name__} {getattr(o, "__qualname__", getattr(o, "__name__", "?"))}>'
    if type(o).__module__ == 'decimal' or type(o).__name__ == 'Decimal':
        return f'Decimal:{o}'
    if hasattr(o, 'pattern') and hasattr(o, 'flags'):
        return f'<re {o.pattern!r}>'
    if id(o) in memo:
        return ('ref', memo[id(o)])
    if depth > 200:
        return '...'
    n = memo[id(o)] = len(memo)
    if isinstance(o, (list, tuple)):
        return [type(o).__name__, n] + [dump_obj(x, memo, depth + 1) for x in o]
    if isinstance(o, (set, frozenset)):
        return ['set', n] + sorted(repr(dump_obj(x, memo, depth + 1)) for x in o)
    if isinstance(o, dict):
        keys = sorted(o.keys(), key=repr)
        return ['dict', n] + [(repr(k), dump_obj(o[k], memo, depth + 1)) for k in keys]
    d = getattr(o, '__dict__', None)
    if d is not None:
        keys = sorted(d.keys())
        return [type(o).__name__, n] + [(k, dump_obj(d[k], memo, depth + 1)) for k in keys]
    slots = getattr(type(o), '__slots__', None)
    if slots:
        return [type(o).__name__, n] + [(sl, dump_obj(getattr(o, sl, None), memo, depth + 1)) for sl in slots]
    return f'<{type(o).__name__}>'


_static_hash = {}
_static = [None]


def _static_ids():
    if _static[0] is None:
        _static[0] = clone.static_memo(template())
    return _static[0]


def static_fingerprint():
    return {k: hashlib.sha1(repr(dump_obj(v)).encode('utf-8', 'surrogatepass')).hexdigest() for k, v in sorted(_static_ids().items())}


def parser_state(p):
    """Canonical dump of the mutable state of a parser; big static tables by content hash."""
    out = []
    for label, obj in (('parser', p), ('lex', p.lex), ('yacc', p.yacc)):
        d = {}
        for k, v in sorted(vars(obj).items()):
            if k in ('lex', 'yacc') and label == 'parser':
                continue
            if k == 'token' and callable(v):
                continue
            if id(v) in _static_ids():
                d[k] = 'static-table'      # shared with every clone; verified unchanged at the end of each task
                continue
            r = repr(dump_obj(v))
            if len(r) > 2000:
                r = 'sha1:' + hashlib.sha1(r.encode('utf-8', 'surrogatepass')).hexdigest()
            d[k] = r
        out.append((label, sorted(d.items())))
    return repr(out)


def _fn_state(mod, name, f):
    out = []
    for i, d in enumerate(f.__defaults__ or ()):
        if isinstance(d, (dict, list, set)):
            out.append((mod, f'{name}:default{i}', repr(dump_obj(d))[:300]))
    for dk, d in sorted((f.__kwdefaults__ or {}).items()):
        if isinstance(d, (dict, list, set)):
            out.append((mod, f'{name}:kwdefault:{dk}', repr(dump_obj(d))[:300]))
    if f.__dict__:
        out.append((mod, f'{name}:attrs', repr(dump_obj({a: b for a, b in f.__dict__.items() if a != '__wrapped__'}))[:300]))
    return out


def module_state():
    """Fingerprint of everything that outlives a call OUTSIDE the parser object: module-level containers and memo caches
    of the smartquery modules, and the thread's decimal context (flags excluded: arithmetic sets them legitimately)."""
    import sys
    import decimal
    out = []
    for name in sorted(sys.modules):
        if name != 'smartquery' and not name.startswith('smartquery.'):
            continue
        if name.startswith('smartquery.ply') or name.startswith('smartquery.gen'):
            continue
        mod = sys.modules[name]
        for k in sorted(vars(mod)):
            v = vars(mod)[k]
            if k.startswith('__'):
                continue
            if isinstance(v, (dict, list, set)):
                r = repr(dump_obj(v))
                out.append((name, k, hashlib.sha1(r.encode('utf-8', 'surrogatepass')).hexdigest() if len(r) > 200 else r))
            elif callable(v) and hasattr(v, 'cache_info'):
                out.append((name, k, 'cache', v.cache_info().currsize))
            elif isinstance(v, (int, float, str, bool, type(None))):
                out.append((name, k, repr(v)))
            # mutable default arguments / function attributes / class-level containers: state shared by every parser instance
            if isinstance(v, types.FunctionType) and v.__module__ == name:
                out.extend(_fn_state(name, k, v))
            elif isinstance(v, type) and v.__module__ == name:
                for ck in sorted(vars(v)):
                    cv = vars(v)[ck]
                    if isinstance(cv, (staticmethod, classmethod)):
                        cv = cv.__func__
                    if isinstance(cv, types.FunctionType):
                        out.extend(_fn_state(name, f'{k}.{ck}', cv))
                    elif isinstance(cv, (dict, list, set)) and not ck.startswith('__'):
                        out.append((name, f'{k}.{ck}', repr(dump_obj(cv))[:300]))
    c = decimal.getcontext()
    out.append(('decimal', c.prec, c.rounding, c.Emin, c.Emax, c.capitals, c.clamp, tuple(sorted(str(t) for t, on in c.traps.items() if on))))
    # interpreter-wide settings a library call could change for everybody after it
    import locale
    import warnings
    out.append(('interpreter', 'int_max_str_digits', sys.get_int_max_str_digits()))
    out.append(('interpreter', 'recursionlimit', sys.getrecursionlimit()))
    out.append(('interpreter', 'switchinterval', sys.getswitchinterval()))
    out.append(('interpreter', 'locale', locale.setlocale(locale.LC_ALL)))
    out.append(('interpreter', 'warnings.filters', len(warnings.filters)))
    out.append(('interpreter', 'sys.path', len(sys.path)))
    out.append(('interpreter', 'environ', hashlib.sha1(repr(sorted(os.environ.items())).encode()).hexdigest()))
    out.append(('interpreter', 'cwd', os.getcwd()))
    out.append(('interpreter', 'trace/profile', repr(sys.gettrace()), repr(sys.getprofile())))
    return out


class World:
    def __init__(self, template, shared_parser):
        self.template = template
        self.shared = shared_parser       # world A: one parser; world B: None (fresh clone per call)
        self.pers = fresh_persistent()
        self.pending = []                 # list_names results obtained but not yet consumed ('deferred')

    def drain(self):
        out = []
        for g in self.pending:
            try:
                out.append(('ok', list(g)))
            except Exception as e:  # noqa
                out.append(('exc', type(e).__name__, str(e)))
        self.pending = []
        return tuple(out)

    def call(self, act):
        r = self._call(act)
        if self.pending and not (act[0] == 'names' and act[2] == 'deferred'):
            r = r + (('consumed-afterwards', self.drain()),)
        return r

    def parser(self):
        if self.shared is not None:
            return self.shared
        return clone.pristine(self.template)

    def _call(self, act):
        api = snapshot.api()
        p = self.parser()
        kind = act[0]
        try:
            if kind == 'parse':
                return ('ok', show(p.parse(act[1])))
            if kind == 'eval':
                nk = act[2]
                if nk == 'omitted':
                    return ('ok', show(p.eval(act[1])))
                names = ({'x9': float('inf'), 'h9': 10 ** 5000} if nk == 'fresh' else (None if nk == 'none' else self.pers[nk]))
                kw = {}
                if act[3] is not None:
                    kw['max_ops_evaluated'] = act[3]
                r = p.eval(act[1], names, **kw)
                return ('ok', show(r), show(names) if nk == 'fresh' else None)
            mode = act[2]
            g = p.list_names(act[1])
            if mode == 'unstarted':
                return ('ok', 'generator')
            if mode == 'deferred':
                self.pending.append(g)      # consumed, in full, after the next call (or at the end of the history)
                return ('ok', 'deferred')
            if mode == 'abandon1':
                first = next(g, None)
                g.close() if hasattr(g, 'close') else None
                return ('ok', first)
            return ('ok', list(g))
        except Exception as e:  # noqa
            return ('exc', type(e).__name__, str(e))

    def pers_state(self):
        return repr({k: show(v) for k, v in self.pers.items()})


_template = [None]
_MS0 = [None]


def _restore_module_state():
    """After a reported change: put back what can be put back so that the remaining histories are judged on their own."""
    import sys
    import decimal
    decimal.setcontext(decimal.Context(prec=28, rounding=decimal.ROUND_HALF_EVEN, Emin=-999999, Emax=999999, capitals=1, clamp=0,
                                       flags=[], traps=[decimal.InvalidOperation, decimal.DivisionByZero, decimal.Overflow]))
    for name, mod in list(sys.modules.items()):
        if name.startswith('smartquery') and mod is not None:
            for k, v in list(vars(mod).items()):
                if callable(v) and hasattr(v, 'cache_clear'):
                    v.cache_clear()
    if _MS0[0]:
        for e in _MS0[0]:
            if e[:2] == ('interpreter', 'int_max_str_digits'):
                sys.set_int_max_str_digits(e[2])
            elif e[:2] == ('interpreter', 'recursionlimit'):
                sys.setrecursionlimit(e[2])


def template():
    if _template[0] is None:
        _template[0] = snapshot.api().new_parser()
        _MS0[0] = module_state()
    return _template[0]


def _reset():
    pass


def _only_memo_caches(ms1, ms0):
    diff = [x for x in ms1 if x not in ms0]
    return bool(diff) and all(len(x) == 4 and x[2] == 'cache' for x in diff)


def _memo_cache_is_transparent(res, calls):
    """A memo cache (functools cache) of the package has filled up. That alone is not a dependence on history: a cache of immutable,
    correctly keyed values changes nothing a caller can see. Decide it by behaviour: every call of the history and of the battery must
    give, on a fresh parser, the same answer with the caches as they are now and with the caches emptied; and a result handed out with
    warm caches must not be an object a later equal call hands out again (the host edits the first one)."""
    import sys
    tpl = template()

    def clear():
        for name, mod in list(sys.modules.items()):
            if name.startswith('smartquery') and mod is not None:
                for k, v in list(vars(mod).items()):
                    if callable(v) and hasattr(v, 'cache_clear'):
                        v.cache_clear()
    for act in list(calls) + list(BATTERY):
        warm = World(tpl, None).call(act)
        warm_again_world = World(tpl, None)
        if act[0] == 'eval':
            # hand the first warm result to a host that edits it, then ask again
            try:
                p = clone.pristine(tpl)
                r = p.eval(act[1], {'x9': float('inf'), 'h9': 10 ** 5000} if act[2] == 'fresh' else None, **({} if len(act) < 4 or act[3] is None else {'max_ops_evaluated': act[3]}))
                if isinstance(r, list):
                    r.append('HOST')
                elif isinstance(r, dict):
                    r['HOST'] = 1
            except Exception:  # noqa
                pass
        warm2 = warm_again_world.call(act)
        saved = None
        clear()
        cold = World(tpl, None).call(act)
        res.count('memo_cache_confirmation_calls', 3)
        if warm != cold or warm2 != cold:
            return False, act, cold, (warm if warm != cold else warm2)
        # refill as it was (the calls above did that already for this act; earlier acts are replayed by the loop)
    return True, None, None, None


def run_history(res, hist, check_all=False):
    """Replay hist in both worlds. Compares every call when check_all, otherwise the last one."""
    tpl = template()
    A = World(tpl, clone.pristine(tpl))
    B = World(tpl, None)
    # the same history on a parser constructed WITH a parse cache: a caching SqParser is an SqParser
    AC = None
    if len(hist) <= 2:
        pc = clone.pristine(tpl)
        pc.parse_cache = {}
        AC = World(tpl, pc)
    last_exc = False
    ms0 = _MS0[0]
    for i, act in enumerate(hist):
        ra = A.call(act)
        rb = B.call(act)
        res.count('calls')
        if AC is not None:
            rc = AC.call(act)
            res.count('calls')
            if rc != rb or AC.pers_state() != B.pers_state():
                res.violation(f'result-with-parse-cache:{_sig(act)}<-{_sig(hist[i - 1]) if i else "start"}',
                              'on a parser with a parse cache a call gives a different answer than on a fresh parser with equal arguments',
                              {'history': [list(map(_j, a)) for a in hist[:i + 1]], 'expected': repr(rb)[:400], 'observed': repr(rc)[:400],
                               'parse_cache': True})
                return None, False
        last_exc = ra[0] == 'exc'
        if check_all or i == len(hist) - 1:
            if ra != rb:
                res.violation(f'result:{_sig(act)}<-{_sig(hist[i - 1]) if i else "start"}',
                              'a call gives a different answer on a used parser than on a fresh one with equal arguments',
                              {'history': [list(map(_j, a)) for a in hist[:i + 1]], 'expected': repr(rb)[:400], 'observed': repr(ra)[:400]})
                return None, False
            if A.pers_state() != B.pers_state():
                res.violation(f'names:{_sig(act)}', 'persistent names mappings evolve differently on a used parser',
                              {'history': [list(map(_j, a)) for a in hist[:i + 1]], 'expected': B.pers_state()[:400], 'observed': A.pers_state()[:400]})
                return None, False
    da, db = A.drain(), B.drain()
    if da != db:
        res.violation(f'deferred-names:{_sig(hist[-1])}', 'a list_names result consumed after it was obtained differs from the one of a fresh parser',
                      {'history': [list(map(_j, a)) for a in hist], 'expected': repr(db)[:400], 'observed': repr(da)[:400]})
        return None, False
    if last_exc:
        for act in BATTERY:
            ra = A.call(act)
            rb = B.call(act)
            res.count('battery_calls')
            if ra != rb:
                res.violation(f'after-exception:{_sig(hist[-1])}:{act[0]}', 'after an exception the parser is no longer fully usable',
                              {'history': [list(map(_j, a)) for a in hist] + [list(map(_j, act))], 'expected': repr(rb)[:400], 'observed': repr(ra)[:400]})
                return None, False
    ms1 = module_state()
    if ms1 != ms0 and _only_memo_caches(ms1, ms0):
        okc, act_c, cold, warm = _memo_cache_is_transparent(res, [a for a in hist if a[0] == 'eval' and a[2] in ('fresh', 'none', 'omitted')])
        _restore_module_state()
        if okc:
            res.count('memo_cache_filled_without_visible_effect')
            ms1 = ms0
        else:
            res.violation(f'module-state:memo-cache-changes-answers:{_sig(act_c)}', 'a memo cache of the package that an earlier call filled changes the answer of a later '
                          'call (compared with the same call after emptying the caches)',
                          {'history': [list(map(_j, a)) for a in hist] + [list(map(_j, act_c))], 'expected': repr(cold)[:400], 'observed': repr(warm)[:400]})
            return None, False
    if ms1 != ms0:
        diff = [x for x in ms1 if x not in ms0][:3]
        res.violation(f'module-state:{diff[0][0] if diff else "?"}:{diff[0][1] if diff else "?"}',
                      'a call changed state that outlives it outside the parser object (module-level container / memo cache / decimal '
                      'context): later calls in this process no longer depend on their arguments only',
                      {'history': [list(map(_j, a)) for a in hist], 'expected': 'pristine module state', 'observed': repr(diff)[:400]})
        _restore_module_state()
        return None, False
    st = parser_state(A.shared) + A.pers_state()
    return st, True


def _j(x):
    return x


def _sig(act):
    if act[0] == 'parse':
        return 'parse:' + _srckind(act[1])
    if act[0] == 'eval':
        return f'eval:{_srckind(act[1])}:{act[2]}'
    return f'list_names:{act[2]}:{_srckind(act[1])}'


def _srckind(s):
    return repr(s)[:24]


def builtin_sweep(res):
    """Every builtin of the function table is called (through eval) on a handful of arguments, twice, with a host mutation of
    the first result in between: module-level state must stay pristine and the second answer must equal the first."""
    api = snapshot.api()
    tpl = template()
    ms0 = _MS0[0]
    argsets = ['"a b c"', '"a b c", " "', '[3, 1, 2]', '[3, 1, 2], v => v', '{"a": 1}', '{"a": 1}, "a"', '2.5', '"ab", "a", "b"', '[1, 2], 0',
               '"x1y22", "[0-9]+"', '[1, 2], ","', '1, 3', '']
    for f in sorted(api.FUNCTIONS):
        if f.startswith('__') or f in ('rand', 'shuffle'):
            continue
        for a in argsets:
            src = f'{f}({a})'
            p = clone.pristine(tpl)
            outs = []
            for attempt in (1, 2):
                try:
                    r = p.eval(src, {})
                    outs.append(('ok', show(r)))
                    if attempt == 1 and isinstance(r, list):
                        r.append('HOST')            # the host edits the value it was handed
                    elif attempt == 1 and isinstance(r, dict):
                        r['HOST'] = 1
                except Exception as e:  # noqa
                    outs.append(('exc', type(e).__name__, str(e)))
                res.count('calls')
            if outs[0] != outs[1]:
                res.violation(f'repeat:{f}', 'the same call gives a different answer the second time (after the host edited the first result)',
                              {'history': [['eval', src, 'fresh', None]] * 2, 'expected': repr(outs[0])[:300], 'observed': repr(outs[1])[:300]})
            ms1 = module_state()
            if ms1 != ms0 and _only_memo_caches(ms1, ms0):
                # the repeat comparison above already ran with the cache warm (second attempt) and after the host edit: transparent
                _restore_module_state()
                res.count('memo_cache_filled_without_visible_effect')
                ms1 = ms0
            if ms1 != ms0:
                diff = [x for x in ms1 if x not in ms0][:3]
                res.violation(f'module-state:{diff[0][0] if diff else "?"}:{diff[0][1] if diff else "?"}',
                              'a call changed state that outlives it outside the parser object (module-level container / memo cache / decimal '
                              'context)', {'history': [['eval', src, 'fresh', None]], 'expected': 'pristine module state', 'observed': repr(diff)[:400]})
                _restore_module_state()


def work(task):
    if task[0] == 'builtin-sweep':
        res = runner.Result()
        builtin_sweep(res)
        return res
    hists, acts_idx = task
    res = runner.Result()
    acts = actions()
    use = acts if acts_idx is None else [acts[i] for i in acts_idx]
    fp0 = static_fingerprint()
    for hist in hists:
        for a in use:
            h2 = list(hist) + [a]
            st, ok = run_history(res, h2)
            res.count('transitions')
            if ok:
                res.outcome(runner.h(st))
                res.bag.add((runner.h(st), tuple(h2)))
    if static_fingerprint() != fp0:
        res.violation('static-tables-mutated', 'the LALR / lexer tables shared by all parsers were modified by a call',
                      {'history': [list(a) for a in (hists[0] if hists else ())], 'expected': 'tables unchanged', 'observed': 'changed'})
    return res


def deep_actions():
    """Smaller alphabet for the deepest level: the calls that leave state behind / depend on it."""
    acts = actions()
    keep = []
    for i, a in enumerate(acts):
        if a[0] == 'parse' and a[1] in ('[1,\n2]\n3', 'a = 1\nb = 2\nc = = 3', '(1', '1)', '1 +', 'x = 1; y = (2'):
            keep.append(i)
        elif a[0] == 'eval' and a[1] in ('1 + 2', '(1', 'f = v => v + u', 'f(1)', 'map(l, v => v + u)', 'u', 'x', 'total = 41\nboost = = 2',
                                         'total + 1', 'x += 1', '1 + 1 + 1 + 1') and a[2] in ('fresh', 'P'):
            keep.append(i)
        elif a[0] == 'eval' and a[2] == 'omitted' and a[1] in ('x = 1', 'x', 'len = 7; len', 'len("ab")'):
            keep.append(i)
        elif a[0] == 'names' and a[1] in ('price * qty + fee(region)', 'alpha + beta ? gamma', 'a\n(b,\nc'):
            keep.append(i)
    return keep


def main(tier, seed, t0):
    b = BOUNDS[tier]
    snapshot.api()
    template()
    total = runner.Result()
    seen = {}
    frontier = [()]
    depth = 0
    deep = deep_actions()
    while frontier and depth < b['DEEP']:
        depth += 1
        idx = None if depth <= b['DEPTH'] else deep
        n = max(1, len(frontier) // 64 + 1)
        tasks = [(frontier[i:i + n], idx) for i in range(0, len(frontier), n)]
        if depth == 1:
            tasks.append(('builtin-sweep',))
        tasks = runner.rotate(tasks, seed)
        r = runner.run_tasks(work, tasks, selftest=(depth == 1))
        new = []
        for st, hist in sorted(r.bag, key=lambda x: (x[1], x[0])):
            if st not in seen:
                seen[st] = hist
                new.append(hist)
        r.bag = set()
        total.merge(r)
        frontier = new
        if depth == 2 and new:
            total.sample({'history': [list(a) for a in new[len(new) // 3]]})
    n = total.n
    cov = {
        'states': len(seen),
        'transitions': n.get('transitions', 0),
        'traces_validated_against_impl': n.get('calls', 0) + n.get('battery_calls', 0),
        'evaluations': n.get('calls', 0) + n.get('battery_calls', 0),
        'distinct_nontrivial': len(total.outcomes),
        'rule': 'BFS over call sequences on one parser: %d calls (parse x %d sources, eval x %d sources x {fresh, P, Q} names incl. budgets, '
                'list_names x %d sources x {full, abandoned after one name, never started}) to depth %d, then %d state-bearing calls to '
                'depth %d; each history replayed on a clone and compared call by call with fresh-parser-per-call execution; states '
                'deduplicated on a generic dump of parser + lexer + LALR driver + persistent mappings. distinct_nontrivial = distinct '
                'canonical states.' % (len(actions()), len(PARSE_SRC), len(EVAL_SRC), len(NAMES_SRC), b['DEPTH'], len(deep), b['DEEP']),
        'exhaustive': True,
        'frontier_exhausted': not frontier,
        'max_depth': depth,
        'bounds': b,
    }
    return runner.finish(ID, tier, seed, total, cov, [
        'a pristine parser is a deep copy of a never-used SqParser that shares only the big static LALR / regex tables (mc/core/clone.py)',
        'a list_names generator that is RESUMED after another call intervened is outside the statement (abandoned generators are in)',
        'the hidden op counter captured by a lambda stored in a persistent mapping is the business of C01 (same in both worlds here)',
    ], t0)


def replay(w):
    res = runner.Result()
    hist = [tuple(a) for a in w['history']]
    run_history(res, hist, check_all=True)
    return ('REPRODUCED' if res.viol else 'HOLDS') + f"\n history={hist!r}\n " + repr({k: v[1][:1] for k, v in res.viol.items()})[:800]
