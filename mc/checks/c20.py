"""C20 - syntax-error messages name the offending token and its physical line.

Enumerated: every dead verdict of the C06 token spaces (the alphabets contain LF, CRLF, `;`
and all brackets); every one/two-statement sentence (n <= N) under separator and multi-line
bracket layouts with a stray token inserted at every position; every truncation.
Oracle: the offending token is the one at which the reference parser dies; the message must
contain that token's text and `line <n>`, n = 1 + number of LF before the token's offset;
at end of input the message must say so.
"""
import re

from ..core import runner, e1, snapshot, clone
from ..model import refparse, reflex
from ..spaces import tokens as T, sentences as S

ID = 'C20'

BOUNDS = {
    'quick': dict(LQ=5, LF=3, N=1, PAIRS=40, STRAY=5),
    'thorough': dict(LQ=6, LF=3, N=1, PAIRS=150, STRAY=14, LIGHT_N=2),
}

EOF_RE = re.compile(r'end of input|end of file|\bEOF\b|unexpected end', re.I)
LINE_RE = re.compile(r'line\s+(\d+)')
STRAY = [')', 'a', '0', '=', 'x' * 300, '1', ']', ',', '"s"', 'else', '=>', '"' + 'y' * 300 + '"', '0.0', '%' + 'z' * 250 + '%']


def layout_flags(text, pos):
    before = text[:pos]
    flags = []
    if ';' in before:
        flags.append('semi')
    if '\r\n' in before:
        flags.append('crlf')
    depth = 0
    inb = False
    top = False
    for ch in before:
        if ch in '([{':
            depth += 1
        elif ch in ')]}':
            depth -= 1
        elif ch == '\n':
            if depth > 0:
                inb = True
            else:
                top = True
    if inb:
        flags.append('nl-in-brackets')
    if top:
        flags.append('nl-top')
    return '+'.join(flags) or 'first-line'


def check_message(res, v):
    """v: Verdict whose reference verdict is `dead`."""
    text = v.text
    if v.rk == 'ok':
        res.count('skipped_real_accepts(C06)')
        return
    if v.rk in ('other', 'dead-other'):
        res.count('skipped_not_a_ParserError(C16)')
        return
    if v.rk in ('lex',):
        res.count('skipped_lexical')
        return
    exc = v.r[-1]
    msg = str(exc)
    res.count('messages_checked')
    if v.mpos == 'EOF':
        res.outcome('eof')
        if v.rk == 'dead' and v.rpos != 'EOF':
            sig = 'pos:' + e1.context_types(text, v.rpos)
            res.violation(sig, 'error reported at a token although the text only ends prematurely',
                          {'text': text, 'expected': 'unexpected end of input', 'observed': msg})
        elif not EOF_RE.search(msg):
            res.violation('eof-message', 'error at the very end of the text is not reported as an unexpected end of input',
                          {'text': text, 'expected': 'message saying end of input', 'observed': msg})
        return
    tok = v.toks[v.mat]
    line = reflex.line_of(text, tok[2])
    res.outcome(f'{tok[0]}@{line}:{layout_flags(text, tok[2])}')
    if v.rk == 'reserved':
        # `for = 1`: a reserved word where a name may stand is its own kind of error (C16). Where a name could not stand either
        # (`x for`), the text has a plain syntax error at that token and the message owes token and line
        alt = text[:tok[2]] + 'zzq' + text[tok[2] + len(tok[3]):]
        va = refparse.parse(alt)
        name_dead_here = va[0] == 'dead' and va[1] == v.mat
        if not name_dead_here:
            res.count('skipped_reserved_word')
            return
        res.count('reserved_word_in_non_operand_position')
    if v.rk == 'dead' and v.rpos != tok[2]:
        sig = 'pos:' + e1.context_types(text, v.rpos)
        res.violation(sig, 'the syntax error is raised at a different token than the first one that can not continue the program',
                      {'text': text, 'expected': f'error at offset {tok[2]} ({tok[3]!r})',
                       'observed': f'error at offset {v.rpos}: {msg}'})
        return
    cands = {tok[3]}
    if tok[0] == 'STRING':
        cands.add(tok[1])
    if not any(c in msg for c in cands):
        res.violation('token:' + tok[0], 'message does not contain the offending token text',
                      {'text': text, 'expected': f'token {tok[3]!r}', 'observed': msg})
        return
    m = LINE_RE.search(msg)
    if not m:
        res.violation('line:missing', 'message does not give a line number',
                      {'text': text, 'expected': f'line {line}', 'observed': msg})
    elif int(m.group(1)) != line:
        sig = f'line:{layout_flags(text, tok[2])}:{int(m.group(1)) - line:+d}:{tok[0] if tok[0] == "NEWLINE" else "tok"}'
        res.violation(sig, 'message gives the wrong physical line for the offending token',
                      {'text': text, 'expected': f'line {line} (token {tok[3]!r} at offset {tok[2]})', 'observed': msg})


def visit(res, v, symbols):
    if v.mk == 'dead':
        check_message(res, v)
        if symbols[0] in ('\n', '\r\n', ';'):
            cached_message(res, v)
        if len(symbols) >= 3:
            res.sample({'text': v.text, 'message': str(v.r[-1])}, cap=2)


_cached = [None]


def _reset_cached():
    _cached[0] = None


runner.TASK_INIT.append(_reset_cached)


def cached_message(res, v):
    """The message of the same text on a parser with a parse cache must be the same message."""
    import copy
    from ..core import real as realmod
    if v.rk not in ('dead',):
        return
    if _cached[0] is None:
        e1.get_real()
        p = clone.pristine(e1._template)
        p.parse_cache = {}
        _cached[0] = realmod.Real(p)
    r = _cached[0].parse(v.text)
    if len(_cached[0].parser.parse_cache) > 2000:
        _cached[0].parser.parse_cache.clear()
    if r[0] != v.rk or str(r[-1]) != str(v.r[-1]):
        res.violation('parse-cache-changes-message', 'with a parse cache the syntax-error message of the same text is different',
                      {'text': v.text, 'expected': str(v.r[-1]), 'observed': str(r[-1]) if r[0] != 'ok' else 'accepted'})


def check_text(res, text):
    v = e1.Verdict(text)
    res.count('strings')
    if v.mk == 'dead':
        check_message(res, v)
        cached_message(res, v)
    return v


SEPS = ['\n', ';', '\r\n', '\n \n', '; \n']


def layouts(toks):
    """Multi-line bracket layouts of one statement's token list."""
    yield toks
    for nl in ('\n', '\r\n'):
        out = []
        depth = 0
        changed = False
        for t in toks:
            if t in (')', ']', '}'):
                depth -= 1
                if depth >= 0:
                    out.append(nl)
                    changed = True
            out.append(t)
            if t in ('(', '[', '{'):
                depth += 1
                out.append(nl)
                changed = True
            elif t == ',' and depth > 0:
                out.append(nl)
                changed = True
        if changed:
            yield out


def work(task):
    kind = task[0]
    res = runner.Result()
    if kind == 'tok':
        _, alpha_name, prefix, L = task
        alphabet = T.SIGMA_Q if alpha_name == 'Q' else T.SIGMA_FULL
        e1.explore(prefix, alphabet, L, visit, res)
    elif kind == 'sent':
        _, n, lo, hi, pairs, nstray = task[:6]
        light = len(task) > 6 and task[6]      # larger statements: one partner, two separators, partner first, two stray tokens
        cs = S.constructors()
        sks = _skeletons(n)
        for idx in range(lo, hi):
            tree = S.build_statement(sks[idx], cs, S.LeafSupply(idx))
            toks = S.render(tree)
            # partner statement: a deterministic other sentence
            others = [S.render(S.build_statement(sks[(idx * 7 + k * 13 + 1) % len(sks)], cs, S.LeafSupply(k)))
                      for k in range(1 if pairs < 100 else 2)]
            # characters that look like line ends to str.splitlines() but are ordinary characters of the language
            others.append(['x', '=', '"p\u2028q\x85r\x0bs\x0ct\x1cu\x1ev"'])
            others.append(['#', 'odd', '\u2029', '\x85', '\x0c', 'comment'])
            odd = others[-2:]
            if light:
                others = others[:1]
            for lay in layouts(toks):
                for other in others:
                    for sep in (SEPS[:2] if light else SEPS if other not in odd else SEPS[:1]):
                        for order in ((0, 1) if other not in odd and not light else (0,)):
                            prog = (other + [sep] + lay) if order == 0 else (lay + [sep] + other)
                            res.count('programs')
                            # stray token at every position
                            for i in range(len(prog) + 1):
                                for s in STRAY[:nstray]:
                                    check_text(res, ' '.join(prog[:i] + [s] + prog[i:]))
                                # truncation at every token boundary
                                if i < len(prog):
                                    check_text(res, ' '.join(prog[:i]))
                            # deletion of every token
                            for i in range(0 if not light else len(prog), len(prog)):
                                check_text(res, ' '.join(prog[:i] + prog[i + 1:]))
    return res


_sk = {}


def _skeletons(n):
    if n not in _sk:
        _sk[n] = list(S.gen_statements(n, S.constructors()))
    return _sk[n]


def main(tier, seed, t0):
    b = BOUNDS[tier]
    snapshot.api()
    e1.get_real()
    parent = runner.Result()
    tasks = []
    for name, alphabet, L in (('Q', T.SIGMA_Q, b['LQ']), ('F', T.SIGMA_FULL, b['LF'])):
        viable = e1.seeds(alphabet, 2, visit, parent)
        tasks += [('tok', name, p, L) for p in viable]
    nsk = len(_skeletons(b['N']))
    step = max(1, nsk // 256)
    tasks += [('sent', b['N'], lo, min(nsk, lo + step), b['PAIRS'], b['STRAY']) for lo in range(0, nsk, step)]
    if b.get('LIGHT_N'):
        nsk2 = len(_skeletons(b['LIGHT_N']))
        step2 = max(1, nsk2 // 1024)
        tasks += [('sent', b['LIGHT_N'], lo, min(nsk2, lo + step2), 1, 2, True) for lo in range(0, nsk2, step2)]
    tasks = runner.rotate(tasks, seed)
    total = runner.run_tasks(work, tasks)
    total.merge(parent)
    n = total.n
    cov = {
        'states': n.get('messages_checked', 0),
        'transitions': n.get('strings', 0),
        'traces_validated_against_impl': n.get('messages_checked', 0),
        'evaluations': n.get('strings', 0),
        'distinct_nontrivial': len(total.outcomes),
        'rule': 'every erroneous token string of the C06 token spaces (SIGMA_Q <= %d, SIGMA_FULL <= %d tokens) and every '
                'two-statement program built from statements with <= %d constructor nodes under %d separators x multi-line '
                'bracket layouts, with each of %d stray tokens inserted at every position, every truncation and every '
                'single-token deletion%s. distinct_nontrivial = distinct (offending token type, line, layout-before-error) '
                'classes seen.' % (b['LQ'], b['LF'], b['N'], len(SEPS), b['STRAY'],
                                   ('; statements with <= %d nodes: one partner placed first, separators LF and ;, two stray tokens and truncations'
                                    % b['LIGHT_N']) if b.get('LIGHT_N') else ''),
        'exhaustive': True,
        'bounds': b,
    }
    return runner.finish(ID, tier, seed, total, cov, [
        'the offending token is defined by the reference parser (first token that can not continue a program)',
        'message wording is free apart from: token text, `line <n>`, and an end-of-input phrase',
    ], t0)


def replay(w):
    res = runner.Result()
    v = check_text(res, w['text'])
    bad = bool(res.viol)
    return ('REPRODUCED' if bad else 'HOLDS') + f"\n text={w['text']!r}\n real={v.r!r}\n reference dead at {v.mpos}"
