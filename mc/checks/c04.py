"""C04 - arithmetic stays in bounded-precision decimals; numbers cannot blow up.

Operand alphabet: every host-suppliable numeric type (int incl. 10^27..10^40 and 2^200, bool,
float, Decimal incl. 29- and 41-digit coefficients and huge exponents), numeric strings, plus a
string and a list for the "never repeats" clause.  All ordered pairs x every route to an
arithmetic operation (operator, compound assignment, compound index assignment) and every
numeric builtin on every operand; then BFS over chains of operations, states deduplicated on
(type, digit bucket, exponent bucket, sign).
Invariants: * ** and *= (both forms) give a Decimal with <= 28 coefficient digits or raise;
every numeric result has digits <= max(28, 1 + widest numeric argument) (float() excepted);
no single operation runs longer than the watchdog (operations on huge exponents run in their
own killable process).
"""
import decimal
import multiprocessing as mp

from ..core import runner, snapshot, watchdog

ID = 'C04'

BOUNDS = {
    'quick': dict(DEPTH=2, CHAIN_OPERANDS='reduced'),
    'thorough': dict(DEPTH=3, CHAIN_OPERANDS='full'),
}

LIMIT_S = 10.0     # far above any legitimate cost (slowest enumerated case: 1.6 s, a 5000-digit base to a fractional power)
KILL_S = 20.0

# label -> python expression building the operand (evaluated with D = the snapshot's Decimal)
OPERANDS = {
    'i0': '0', 'i1': '1', 'i-1': '-1', 'i2': '2', 'i7': '7', 'i12345': '12345', 'i10^27': '10**27', 'i10^28-1': '10**28-1', 'i10^28': '10**28',
    'i10^40': '10**40', 'i2^200': '2**200', 'i-2^200': '-(2**200)', 'i10^18': '10**18', 'i2^63': '2**63-1', 'i20000': '20000',
    'bT': 'True', 'bF': 'False',
    'f.5': '0.5', 'f.25': '0.25', 'f.75': '0.75', 'f.375': '0.375', 'f.1': '0.1', 'f1e300': '1e300', 'f-0': '-0.0', 'f3': '3.0', 'f1e-300': '1e-300',
    'd0': "D('0')", 'd1': "D('1')", 'd.1': "D('0.1')", 'd28x9': "D('9'*28)", 'd29': "D('1'+'0'*27+'5')", 'd41': "D('123456789'*4+'12345')",
    'd1E400': "D('1E+400')", 'd9E999999': "D('9E+999999')", 'd1E-999999': "D('1E-999999')", 'd1E5000': "D('1E+5000')", 'd-7': "D('-7')",
    'd2': "D('2')", 'd.5': "D('0.5')", 'd1000': "D('1000')", 'd12345': "D('12345')", 'd1E30': "D('1E+30')", 'd3.000': "D('3.000')",
    's12': "'12'", 's5000d': "'1'*5000", 's1E5000': "'1E+5000'", 's1e99999': "' 1e99999 '", 's12.50': "'12.50'", 's-1E40': "'-1.5E+40'", 'sab': "'ab'", 'l12': "[D('1'), D('2')]", 'lL': "[7]*50",
}
HUGE = {'d9E999999', 'd1E-999999', 'd1E5000'}          # run in their own killable process
REDUCED = ['i2', 'i7', 'i10^28-1', 'i2^200', 'bT', 'f.5', 'd.1', 'd28x9', 'd41', 'd2', 'sab', 'l12', 'i12345', 'd12345', 'i10^18']

BIN_OPS = ['+', '-', '*', '/', '**']
COMPOUND = ['+=', '-=', '*=', '/=', '**=']        # `**=` is not in the grammar today: its programs are syntax errors and count as such
UNARY_BUILTINS = ['int', 'float', 'round', 'floor', 'ceil', 'abs', 'sum', 'min', 'max']


def build(label):
    api = snapshot.api()
    return eval(OPERANDS[label], {'D': api.Decimal})   # noqa - constants of this file only


def programs():
    """(route, program text, operand names used, multiplicative?)"""
    out = []
    for op in BIN_OPS:
        out.append((f'bin{op}', f'a {op} b', 2, op in ('*', '**')))
    for op in COMPOUND:
        out.append((f'name{op}', f'x = a; x {op} b; x', 2, op in ('*=', '**=')))
        out.append((f'host-name{op}', f'a {op} b; a', 2, op in ('*=', '**=')))
        out.append((f'index{op}', f'c = [a]; c[0] {op} b; c[0]', 2, op in ('*=', '**=')))
        out.append((f'host-index{op}', f'hc[0] {op} b; hc[0]', 2, op in ('*=', '**=')))
        out.append((f'dict-index{op}', f'c = {{"k": a}}; c["k"] {op} b; c["k"]', 2, op in ('*=', '**=')))
    for f in UNARY_BUILTINS:
        out.append((f'call:{f}', f'{f}(a)', 1, False))
    out.append(('call:round2', 'round(a, b)', 2, False))
    out.append(('call:sum2', 'sum([a, b])', 2, False))
    out.append(('call:sum3', 'sum([a, b, a])', 2, False))
    out.append(('call:min2', 'min(a, b)', 2, False))
    out.append(('call:max2', 'max([a, b])', 2, False))
    out.append(('neg', '- a', 1, False))
    out.append(('method:int', 'a.int()', 1, False))
    out.append(('reduce*', 'reduce([a, b, a], (p, q) => p * q)', 2, True))
    out.append(('map**', 'map([a], v => v ** b)[0]', 2, True))
    return out


def digits(v):
    """Size of a number in decimal digits; None for non-numbers and special values."""
    if isinstance(v, bool):
        return 1
    if isinstance(v, int):
        return len(str(abs(v))) if abs(v) < 10 ** 4000 else 4001
    if isinstance(v, float):
        if v != v or v in (float('inf'), float('-inf')):
            return None
        return 17           # a float result has a fixed size
    if isinstance(v, decimal.Decimal):
        t = v.as_tuple()
        if not isinstance(t.exponent, int):
            return None
        return len(t.digits)
    return None


def width(v):
    """Width of an argument: digits of a number, digit count of a numeric string, max over a list."""
    if isinstance(v, float) and v == v and v not in (float('inf'), float('-inf')):
        # as an ARGUMENT a float is its exact binary value: width = length of its exact decimal expansion
        t = decimal.Decimal(v).as_tuple()
        return len(t.digits) + max(t.exponent, 0)
    d = digits(v)
    if d is not None:
        return d
    if isinstance(v, str):
        return sum(ch.isdigit() for ch in v) if v.strip('-+. 0123456789') == '' else 0
    if isinstance(v, (list, tuple)):
        return max([width(x) for x in v] or [0])
    return 0


_parser = [None]


def _reset():
    _parser[0] = None


runner.TASK_INIT.append(_reset)


def parser():
    if _parser[0] is None:
        _parser[0] = snapshot.api().new_parser()
    return _parser[0]


def evaluate(text, a, b):
    names = {'a': a, 'b': b, 'hc': [a]}
    try:
        with watchdog.limit(LIMIT_S):
            return ('val', parser().eval(text, names, max_ops_evaluated=1000))
    except watchdog.WatchdogTimeout:
        return ('slow', None)
    except Exception as e:  # noqa
        return ('exc', e)


def _child(conn, jobs):
    for text, la, lb in jobs:
        try:
            a = build(la)
            b = build(lb) if lb else None
            conn.send(summarise(evaluate(text, a, b)))
        except BaseException as e:  # noqa
            conn.send(('exc', type(e).__name__))


def isolated_batch(jobs):
    """Run transitions [(text, la, lb)] in a child process that is killed (and restarted after the
    offending job) whenever one transition takes longer than KILL_S. Returns one summary per job."""
    ctx = mp.get_context('fork')
    out = []
    i = 0
    while i < len(jobs):
        pc, cc = ctx.Pipe(False)
        p = ctx.Process(target=_child, args=(cc, jobs[i:]))
        p.start()
        cc.close()
        try:
            while i < len(jobs):
                if pc.poll(KILL_S):
                    try:
                        out.append(pc.recv())
                    except EOFError:
                        out.append(('crash', None))
                        i += 1
                        break
                    i += 1
                else:
                    out.append(('slow', None))
                    i += 1
                    break
        finally:
            if p.is_alive():
                p.kill()
            p.join()
    return out


def isolated(text, la, lb):
    return isolated_batch([(text, la, lb)])[0]


def judge(res, route, text, mult, la, lb, a, b, out_summary):
    """out_summary: ('val', typename, digits, is_decimal, is_repeat) | ('exc', cls) | ('slow', None)"""
    args = [a] + ([b] if lb else [])
    wmax = max(width(x) for x in args)
    bound = max(28, 1 + wmax)
    kind = out_summary[0]
    res.count('transitions')
    if kind in ('slow', 'crash'):
        res.violation(f'slow:{route}:{_cls(la)}', f'one arithmetic operation ran longer than {LIMIT_S} s (number blow-up in time)',
                      {'program': text, 'a': la, 'b': lb, 'expected': f'a result or an error within {LIMIT_S} s', 'observed': kind})
        return None
    if kind == 'exc':
        res.outcome(f'{route}:exc')
        return None
    _, tname, dg, is_dec, is_rep = out_summary
    res.outcome(f'{route}:{tname}:{min(dg or 0, 60)}')
    if mult:
        if is_rep:
            res.violation(f'repeat:{route}:{_cls(la)},{_cls(lb)}', 'a multiplicative operation repeated a string or list',
                          {'program': text, 'a': la, 'b': lb, 'expected': 'a 28-digit decimal or an error', 'observed': tname})
            return None
        if not is_dec or (dg is not None and dg > 28):
            res.violation(f'native:{route}:{_cls(la)},{_cls(lb)}', 'a multiplicative operation did not compute in 28-digit decimal arithmetic',
                          {'program': text, 'a': la, 'b': lb, 'expected': 'Decimal with <= 28 digits', 'observed': f'{tname} with {dg} digits'})
            return None
    if dg is not None and dg > bound and 'call:float' not in route:
        res.violation(f'digits:{route}:{_cls(la)}', 'a numeric result has more digits than max(28, 1 + widest numeric argument)',
                      {'program': text, 'a': la, 'b': lb, 'expected': f'<= {bound} digits', 'observed': f'{tname} with {dg}{"+" if dg > 4000 else ""} digits'})
        return None
    return True


def _cls(label):
    if label is None:
        return ''
    if label in OPERANDS:
        return label[0] + ('-huge-exponent' if label in HUGE or label in ('d1E400', 'd1E30') else '')
    return 'chained-' + label.lstrip('-')[0]


def summarise(r):
    if r[0] == 'val':
        v = r[1]
        return ('val', type(v).__name__, digits(v), isinstance(v, decimal.Decimal), isinstance(v, (str, list)))
    if r[0] == 'exc':
        return ('exc', type(r[1]).__name__)
    return (r[0], None)


def abstract(v):
    if isinstance(v, bool):
        return ('bool', v)
    d = digits(v)
    if d is None:
        return None
    sign = -1 if v < 0 else (0 if v == 0 else 1)
    if isinstance(v, decimal.Decimal):
        e = v.as_tuple().exponent
        eb = -3 if e < -1000 else (-2 if e < -28 else (-1 if e < 0 else (0 if e == 0 else (1 if e <= 28 else (2 if e <= 1000 else 3)))))
        return ('Decimal', min(d, 30), eb, sign)
    return (type(v).__name__, d if d <= 30 else (31 + (d > 62) + (d > 200)), sign)


def work(task):
    res = runner.Result()
    kind = task[0]
    progs = programs()
    if kind == 'pairs':
        _, las = task
        for la in las:
            a = build(la)
            jobs = []
            for route, text, nargs, mult in progs:
                for lb in (sorted(OPERANDS) if nargs == 2 else [None]):
                    if la in HUGE or (lb in HUGE):
                        jobs.append((route, text, mult, lb))
                    else:
                        b = build(lb) if lb else None
                        judge(res, route, text, mult, la, lb, a, b, summarise(evaluate(text, a, b)))
            if jobs:
                summs = isolated_batch([(text, la, lb) for route, text, mult, lb in jobs])
                for (route, text, mult, lb), summ in zip(jobs, summs):
                    judge(res, route, text, mult, la, lb, a, build(lb) if lb else None, summ)
            res.count('operands')
        res.sample({'program': 'x = a; x *= b; x', 'a': las[0], 'b': 'i2^200', 'a_built_by': OPERANDS[las[0]]})
    else:
        # chains: states are concrete representative values (given as python-expression strings)
        _, reps, operand_labels = task
        api = snapshot.api()
        for rep in reps:
            a = eval(rep, {'D': api.Decimal, 'Decimal': api.Decimal})   # noqa - produced by repr() below
            for route, text, nargs, mult in progs:
                for lb in (operand_labels if nargs == 2 else [None]):
                    for swap in ((False, True) if nargs == 2 else (False,)):
                        b = build(lb) if lb else None
                        x, y = (b, a) if swap else (a, b)
                        if _huge_exp(a):
                            res.count('huge_exponent_chain_states_skipped_in_process')
                            continue
                        r = evaluate(text, x, y)
                        ok = judge(res, 'chain:' + route, text, mult, rep if not swap else lb, lb if not swap else rep, x, y, summarise(r))
                        if ok and r[0] == 'val':
                            ab = abstract(r[1])
                            if ab is not None:
                                res.bag.add((ab, _repr(r[1])))
    return res


def _huge_exp(v):
    return isinstance(v, decimal.Decimal) and v.is_finite() and abs(v.as_tuple().exponent) > 5000


def _repr(v):
    if isinstance(v, decimal.Decimal):
        return f"D('{v}')"
    return repr(v)


def main(tier, seed, t0):
    b = BOUNDS[tier]
    snapshot.api()
    labels = sorted(OPERANDS)
    tasks = [('pairs', [la]) for la in labels]
    tasks = runner.rotate(tasks, seed)
    total = runner.run_tasks(work, tasks)
    # chains
    seen = {}
    frontier = []
    for la in labels:
        if la in HUGE:
            continue
        v = build(la)
        ab = abstract(v)
        if ab is not None and ab not in seen:
            seen[ab] = _repr(v)
    # depth 1 results are regenerated here as the first chain layer
    chain_ops = REDUCED if b['CHAIN_OPERANDS'] == 'reduced' else [l for l in labels if l not in HUGE]
    frontier = sorted(seen.values())
    depth = 0
    while frontier and depth < b['DEPTH']:
        depth += 1
        k = max(1, len(frontier) // 48 + 1)
        ctasks = [('chain', frontier[i:i + k], chain_ops) for i in range(0, len(frontier), k)]
        r = runner.run_tasks(work, runner.rotate(ctasks, seed), selftest=(depth == 1))
        new = []
        for ab, rep in sorted(r.bag, key=lambda x: (repr(x[0]), x[1])):
            if ab not in seen:
                seen[ab] = rep
                new.append(rep)
        r.bag = set()
        total.merge(r)
        frontier = new
    n = total.n
    cov = {
        'states': len(seen),
        'transitions': n.get('transitions', 0),
        'traces_validated_against_impl': n.get('transitions', 0),
        'evaluations': n.get('transitions', 0),
        'distinct_nontrivial': len(total.outcomes),
        'rule': '%d operands (ints up to 2^200 / 10^40, bools, floats, Decimals with 28/29/41-digit coefficients and exponents up to '
                '+-999999, numeric strings, a string and lists) x %d routes (5 operators, 4 compound assignments in 5 target forms, 9 '
                'numeric builtins, reduce/map lambdas): all ordered pairs; then chains to depth %d over abstract values (type, digit '
                'bucket, exponent bucket, sign) with %d right/left operands. distinct_nontrivial = distinct (route, result type, digits).'
                % (len(labels), len(programs()), b['DEPTH'], len(chain_ops)),
        'exhaustive': True,
        'frontier_exhausted': not frontier,
        'max_depth': depth,
        'bounds': b,
    }
    return runner.finish(ID, tier, seed, total, cov, [
        'size of an int = its decimal length; of a Decimal = coefficient length; a float result counts as 17 digits (fixed size), a '
        'float argument as the length of its exact decimal expansion (it IS that number: int(1e300) has 301 digits)',
        'special values (Infinity, NaN) are not numbers with digits and are skipped',
        f'time: in-process watchdog {LIMIT_S} s; operations on huge exponents in a killable child ({KILL_S} s)',
    ], t0)


def replay(w):
    la, lb = w['a'], w.get('b')
    api = snapshot.api()

    def mk(l):
        if l is None:
            return None
        if l in OPERANDS:
            return build(l)
        return eval(l, {'D': api.Decimal})   # noqa
    if la in HUGE or lb in HUGE:
        out = isolated(w['program'], la, lb)
    else:
        out = summarise(evaluate(w['program'], mk(la), mk(lb)))
    return f"{w['program']} with a={la} b={lb}\n expected {w['expected']}\n observed now: {out!r}"
