"""C16 - language-level failures are ParserErrors; nothing worse ever escapes.

(a) every string of the C06 token and character spaces through parse, eval and list_names
(b) every truncation at every token boundary of every sentence with <= N nodes
(c) every sentence context (<= N nodes) with one *failing leaf* substituted at each operand
    position: undefined variable, undefined function, compound assignment to an undefined
    variable, missing key (read and compound write), index out of range, pop of an empty
    list, element-adding operations on a full host container, and a budget of one op;
    an external tracer tells whether the failing node was entered - if it was and raised,
    the class must be ParserError
(d) nesting sweep in subprocesses: the interpreter must survive
"""
import os
import subprocess
import sys

from ..core import runner, e1, snapshot, opwrap, clone
from ..model import refparse, reflex
from ..spaces import tokens as T, sentences as S

ID = 'C16'

BOUNDS = {
    'quick': dict(LQ=5, LF=3, M=3, N=1, DEPTHS=[10, 100, 1000, 10000]),
    'thorough': dict(LQ=6, LF=4, M=4, N=2, DEPTHS=[10, 100, 1000, 10000, 100000]),
}


def _cls(e):
    return type(e).__name__


_cached = None


def cached_real():
    global _cached
    if _cached is None:
        from ..core import real
        import copy
        e1.get_real()
        p = clone.pristine(e1._template)
        p.parse_cache = {}
        _cached = real.Real(p)
    return _cached


def _reset_cached():
    global _cached
    _cached = None


runner.TASK_INIT.append(_reset_cached)


def api_trio(res, text, v=None):
    """parse / eval / list_names on one text."""
    R = e1.get_real()
    api = R.api
    PE = api.ParserError
    if v is None:
        v = e1.Verdict(text)
    res.count('strings')
    # ---- parse
    if v.rk in ('other', 'dead-other'):
        exc = v.r[-1]
        where = e1.context_types(text, v.r[1] if v.rk == 'dead-other' else None)
        res.violation(f'parse:{_cls(exc)}@{where}', 'parse() raised something that is not a ParserError',
                      {'api': 'parse', 'text': text, 'expected': 'ParserError or a tree',
                       'observed': f'{_cls(exc)}: {exc}'})
    res.outcome('parse:' + v.rk)
    # ---- parse twice on a parser that has a parse cache: a failure must fail again
    if v.mk != 'ok':
        Rc = cached_real()
        for attempt in (1, 2):
            try:
                Rc.parser.parse(text)
                res.violation(f'cached-parse:no-error:attempt{attempt}', 'a text that is not a program was accepted by a parser with a parse cache',
                              {'api': 'parse+cache', 'text': text, 'expected': 'ParserError on every attempt', 'observed': f'no error on attempt {attempt}'})
            except PE:
                pass
            except BaseException as e:  # noqa
                res.violation(f'cached-parse:{_cls(e)}', 'parse() with a parse cache raised something that is not a ParserError',
                              {'api': 'parse+cache', 'text': text, 'expected': 'ParserError', 'observed': f'{_cls(e)}: {e}'})
        if len(Rc.parser.parse_cache) > 500:
            Rc.parser.parse_cache.clear()
    # ---- eval
    try:
        R.parser.eval(text, {})
        out = 'value'
    except PE:
        out = 'ParserError'
    except Exception as e:  # noqa
        out = 'other:' + _cls(e)
        m = refparse.parse(text.rstrip())
        if m[0] != 'ok':
            where = e1.context_types(text, None)
            res.violation(f'eval:{_cls(e)}@{where}', 'eval() of a text that is not a program raised something that is not a ParserError',
                          {'api': 'eval', 'text': text, 'expected': 'ParserError', 'observed': f'{_cls(e)}: {e}'})
    except BaseException as e:  # noqa
        out = 'base:' + _cls(e)
        res.violation(f'eval:BaseException:{_cls(e)}', 'eval() raised a non-Exception',
                      {'api': 'eval', 'text': text, 'expected': 'an ordinary Exception', 'observed': repr(e)})
    res.outcome('eval:' + out)
    # ---- list_names
    want, lexerr = reflex.names(text)
    try:
        got = list(R.parser.list_names(text))
        if lexerr is not None:
            res.violation('list_names:no-error', 'list_names() of a lexically invalid text did not raise',
                          {'api': 'list_names', 'text': text, 'expected': 'ParserError', 'observed': repr(got)})
    except PE:
        if lexerr is None:
            res.violation('list_names:spurious-error', 'list_names() raised on a lexically valid text',
                          {'api': 'list_names', 'text': text, 'expected': repr(want), 'observed': 'ParserError'})
    except BaseException as e:  # noqa
        res.violation(f'list_names:{_cls(e)}', 'list_names() raised something that is not a ParserError',
                      {'api': 'list_names', 'text': text, 'expected': 'ParserError or names', 'observed': f'{_cls(e)}: {e}'})
    return v


def visit(res, v, symbols):
    api_trio(res, v.text, v)
    if v.rk != 'ok' and len(symbols) >= 3:
        res.sample({'text': v.text, 'error': repr(v.r[-1])}, cap=2)


# ----------------------------------------------------------------- (c) failing leaves

def leaf(text, neutral=None):
    return ('leaf', text, neutral)


# expression-position failing leaves: (kind, surface text tokens, predicate on node)
FAIL_EXPR = [
    ('undefined-variable', ['u_undef']),
    ('undefined-function', ['f_undef', '(', '1', ')']),
    ('undefined-method', ['a', '.', 'f_undef', '(', ')']),
    ('undefined-pipe', ['a', '|', 'f_undef']),
    ('undefined-dunder-function', ['__f_undef__', '(', '1', ')']),
    ('undefined-dunder-method', ['a', '.', '__f_undef', '(', ')']),
    ('undefined-dunder-pipe', ['a', '|', '__f_undef__']),
    ('missing-key', ['hd', '[', '"nokey"', ']']),
    ('index-out-of-range', ['hl', '[', '99', ']']),
    ('negative-index-out-of-range', ['hl', '[', '-', '99', ']']),
    ('pop-empty', ['pop', '(', 'he', ')']),
    ('pop-index-out-of-range', ['pop', '(', 'hl', ',', '99', ')']),
    # positions with thousands of digits (host decimal 1E+5000, host int 10 ** 5000) are missing positions like any other
    ('index-huge', ['hl', '[', 'huge', ']']), ('negative-index-huge', ['hl', '[', '-', 'huge', ']']), ('index-huge-int', ['hl', '[', 'hugei', ']']),
    ('string-index-huge', ['hs', '[', 'huge', ']']), ('pop-index-huge', ['pop', '(', 'hl', ',', 'huge', ')']),
    ('push-full', ['push', '(', 'full', ',', '1', ')']),
    ('insert-full', ['insert', '(', 'full', ',', '0', ',', '1', ')']),
]
FAIL_STMT = [
    ('undefined-variable-compound', ['u_undef', '+=', '1']),
    ('undefined-variable-compound-mul', ['u_undef', '*=', '2']),
    ('missing-key-compound', ['hd', '[', '"nokey"', ']', '+=', '1']),
    ('index-out-of-range-compound', ['hl', '[', '99', ']', '-=', '1']),
    ('index-out-of-range-compound-mul', ['hl', '[', '99', ']', '*=', '2']),
    ('index-out-of-range-compound-div', ['hl', '[', '-', '99', ']', '/=', '2']),
    ('index-huge-compound', ['hl', '[', 'huge', ']', '+=', '1']),
    ('missing-key-compound-sub', ['hd', '[', '"nokey"', ']', '-=', '1']),
    ('missing-key-compound-mul', ['hd', '[', '"nokey"', ']', '*=', '1']),
    ('missing-key-compound-div', ['hd', '[', '"nokey"', ']', '/=', '1']),
    ('empty-list-compound', ['he', '[', '0', ']', '+=', '1']),
    ('setitem-full-list', ['full', '[', '0', ']', '=', '1']),
    ('setitem-full-dict', ['fulld', '[', '"new"', ']', '=', '1']),
    ('setop-full-list', ['full', '[', '0', ']', '+=', '1']),
]


def host_names():
    api = snapshot.api()
    D = api.Decimal
    return {
        'a': D(1), 'b': D(2), 'x': D(3), 'p': D(4), 'q': D(5),
        'hd': {'k': D(1)}, 'hl': [D(1), D(2)], 'he': [], 'huge': D('1E+5000'), 'hugei': 10 ** 5000, 'hs': 'abc',
        'full': [0] * 10000, 'fulld': {str(i): 0 for i in range(10000)},
        'f': lambda *a: D(1), 'g': lambda *a: D(1), 'h': lambda *a: D(1),
    }


class LeafWatch:
    """Tracer: records the exception class raised by the designated failing node."""

    def __init__(self, is_target):
        self.is_target = is_target
        self.entered = False
        self.raised = None
        self.depth_in_target = 0
        self.inner_failed = False

    def enter(self, node, state):
        if self.depth_in_target:
            self.depth_in_target += 1
        elif self.raised is None and not self.entered and self.is_target(node):
            self.entered = True
            self.depth_in_target = 1

    def leave(self, node, value):
        if self.depth_in_target:
            self.depth_in_target -= 1

    def fail(self, node, exc):
        if self.depth_in_target:
            self.depth_in_target -= 1
            if self.depth_in_target == 0 and self.raised is None:
                self.raised = exc


def is_target_for(kind):
    def pred(node):
        cn = type(node).__name__
        if cn == 'NameOp':
            return node.name == 'u_undef'
        if cn == 'ShortOp':
            return node.name == 'u_undef'
        if cn == 'CallOp':
            if node.name in ('f_undef', '__f_undef__', '__f_undef'):
                return True
            if node.name in ('__getitem__', '__setitem_with_op__', '__setitem__') and node.args:
                a0 = node.args[0]
                if type(a0).__name__ == 'NameOp' and a0.name in ('hd', 'hl', 'full', 'fulld', 'hs'):
                    k = node.args[1]
                    kv = getattr(k, 'v', None)
                    if kv == 'nokey' or kv == 'new' or kv == 99 or type(k).__name__ == 'UnaryOp' \
                            or a0.name in ('full', 'fulld') or getattr(k, 'name', None) in ('huge', 'hugei'):
                        return True
            if node.name in ('pop', 'push', 'insert') and node.args:
                a0 = node.args[0]
                if type(a0).__name__ == 'NameOp' and a0.name in ('he', 'full') or \
                        (node.name == 'pop' and len(node.args) == 2):
                    return True
        return False
    return pred


def run_failing(res, text, kind, names):
    R = e1.get_real()
    PE = R.api.ParserError
    res.count('failing_programs')
    watch = LeafWatch(is_target_for(kind))
    exc = None
    try:
        with opwrap.traced(watch):
            R.parser.eval(text, names, max_ops_evaluated=100000)
    except BaseException as e:  # noqa
        exc = e
    if exc is not None and not isinstance(exc, Exception):
        res.violation(f'eval:BaseException:{_cls(exc)}', 'eval() raised a non-Exception',
                      {'api': 'eval', 'text': text, 'expected': 'an ordinary Exception', 'observed': repr(exc)})
        return
    if not watch.entered:
        res.count('failing_leaf_not_reached')
        return
    res.count('failing_leaf_reached')
    if watch.raised is None:
        res.count('failing_leaf_did_not_raise')
        res.outcome(f'{kind}:no-raise')
        # the listed failures must fail
        res.violation(f'no-error:{kind}', 'a language-level failure was not reported at all',
                      {'api': 'eval', 'text': text, 'kind': kind, 'expected': 'ParserError', 'observed': 'no exception at the failing operation'})
        return
    res.outcome(f'{kind}:{_cls(watch.raised)}')
    if not isinstance(watch.raised, PE):
        res.violation(f'class:{kind}:{_cls(watch.raised)}', f'{kind} is reported as {_cls(watch.raised)}, not ParserError',
                      {'api': 'eval', 'text': text, 'kind': kind, 'expected': 'ParserError',
                       'observed': f'{_cls(watch.raised)}: {watch.raised}'})
    elif exc is not watch.raised and not isinstance(exc, PE):
        res.violation(f'rewrapped:{kind}:{_cls(exc)}', 'a ParserError was replaced by another exception on its way out',
                      {'api': 'eval', 'text': text, 'kind': kind, 'expected': 'ParserError', 'observed': repr(exc)})


def leaf_positions(skel):
    """Number of leaves in a statement skeleton."""
    def cnt(sk):
        if sk[0] == 'L':
            return 1
        return sum(cnt(k) for k in sk[2])
    return sum(cnt(k) for k in skel[1])


class SubstSupply(S.LeafSupply):
    def __init__(self, start, target, subst):
        S.LeafSupply.__init__(self, start)
        self.k = 0
        self.target = target
        self.subst = subst

    def next(self):
        lf = S.LeafSupply.next(self)
        self.k += 1
        if self.k - 1 == self.target:
            return self.subst
        return lf


def work(task):
    kind = task[0]
    res = runner.Result()
    if kind == 'tok':
        _, alpha_name, prefix, L = task
        alphabet = T.SIGMA_Q if alpha_name == 'Q' else T.SIGMA_FULL
        e1.explore(prefix, alphabet, L, visit, res)
    elif kind == 'chr':
        _, prefix, M = task
        stack = [prefix]
        while stack:
            p = stack.pop()
            for c in T.SIGMA_CHAR:
                q = p + c
                api_trio(res, q)
                if len(q) < M:
                    stack.append(q)
    elif kind == 'esc':
        # string literals with every backslash + letter / digit followed by hex-digit runs, braces and names: whatever an escape
        # decoder does with them (today: nothing), no text may make parse / eval / list_names raise anything but ParserError
        tails = ['', 'F', 'FF', 'FFFF', 'FFFFFFFF', '110000', '00110000', 'D800', '0000D800', '{0}', '{FFFFFFFF}', '{LATIN SMALL LETTER A}', '{}', '999', '0', '{']
        for q in ('"', "'", 'r"'):
            for c in task[1]:
                for tail in tails:
                    lit = q + '\\' + c + tail + q[-1]
                    for text in (lit, 'x = ' + lit + '; x', lit + ' + "a"', '%a\\' + c + tail + '%', '# \\' + c + tail):
                        api_trio(res, text)
                        res.count('escape_probes')
    elif kind == 'sent':
        _, n, lo, hi = task
        cs = S.constructors()
        sks = _skeletons(n)
        names0 = host_names()
        R = e1.get_real()
        for idx in range(lo, hi):
            sk = sks[idx]
            tree = S.build_statement(sk, cs, S.LeafSupply(idx))
            toks = S.render(tree)
            # (b) truncations
            for i in range(len(toks)):
                api_trio(res, ' '.join(toks[:i]))
                res.count('truncations')
            # budget of one op on the complete program
            text = ' '.join(toks)
            if refparse.parse(text)[0] == 'ok':
                try:
                    R.parser.eval(text, dict(names0, hl=[1, 2], hd={'k': 1}), max_ops_evaluated=1)
                    res.violation('budget-1:no-error', 'a budget of one operation did not stop the program',
                                  {'api': 'eval', 'text': text, 'budget': 1, 'expected': 'ops-limit ParserError', 'observed': 'value'})
                except R.api.OpsLimit:
                    res.count('budget_one_ok')
                except BaseException as e:  # noqa
                    res.violation(f'budget-1:{_cls(e)}', 'exceeding the op budget is not reported as the ops-limit ParserError',
                                  {'api': 'eval', 'text': text, 'budget': 1, 'expected': 'ops-limit ParserError', 'observed': repr(e)})
            # (c) failing leaf at each leaf position
            nl = leaf_positions(sk)
            for pos in range(nl):
                for fk, ftoks in FAIL_EXPR:
                    sub = ('leaf', ' '.join(ftoks), None)
                    t2 = S.build_statement(sk, cs, SubstSupply(idx, pos, sub))
                    for par in (frozenset(), frozenset(S.composite_slots(t2))):
                        text = ' '.join(S.render(t2, par))
                        names = dict(names0, hl=[1, 2], hd={'k': 1}, he=[])
                        run_failing(res, text, fk, names)
            for fk, ftoks in FAIL_STMT:
                for text in (' '.join(ftoks), ' '.join(toks + [';'] + ftoks), ' '.join(ftoks + ['\n'] + toks)):
                    names = dict(names0, hl=[1, 2], hd={'k': 1}, he=[])
                    run_failing(res, text, fk, names)
    return res


_sk = {}


def _skeletons(n):
    if n not in _sk:
        _sk[n] = list(S.gen_statements(n, S.constructors()))
    return _sk[n]


NEST = {
    'parens': ('(' , '1', ')'),
    'list': ('[', '1', ']'),
    'dict': ('{"a":', '1', '}'),
    'unary-minus': ('-', '1', ''),
    'not': ('not ', '1', ''),
    'call': ('str(', '1', ')'),
    'lambda': ('x => ', '1', ''),
    'index': ('', 'x', '[0]'),
    'if-else': ('1 if 1 else ', '1', ''),
    'binary-right': ('1 ** ', '1', ''),
    'binary-left': ('', '1', ' + 1'),
    'method': ('', '"s"', '.lower()'),
}

NEST_CHILD = r'''
import sys
sys.path.insert(0, %(verif)r)
from mc.core import snapshot
api = snapshot.api()
p = api.new_parser()
pre, mid, post = %(parts)r
d = %(depth)d
text = pre * d + mid + post * d
out = []
for name, f in (('parse', lambda: p.parse(text)), ('eval', lambda: p.eval(text, {'x': [[0]]}, max_ops_evaluated=10**9)),
                ('list_names', lambda: list(p.list_names(text)))):
    try:
        f()
        out.append(name + ':ok')
    except Exception as e:
        out.append(name + ':' + type(e).__name__)
    except BaseException as e:
        out.append(name + ':BASE:' + type(e).__name__)
print('RESULT ' + ' '.join(out))
'''


def nest_case(args):
    name, depth = args
    code = NEST_CHILD % dict(verif=runner.VERIF, parts=NEST[name], depth=depth)
    env = dict(os.environ, PYTHONDONTWRITEBYTECODE='1')
    try:
        r = subprocess.run([sys.executable, '-c', code], capture_output=True, text=True, timeout=300, env=env)
    except subprocess.TimeoutExpired:
        return (name, depth, 'timeout', '')
    line = [l for l in r.stdout.splitlines() if l.startswith('RESULT ')]
    return (name, depth, r.returncode, line[0] if line else r.stderr[-300:])


def main(tier, seed, t0):
    b = BOUNDS[tier]
    snapshot.api()
    e1.get_real()
    opwrap.install()
    parent = runner.Result()
    tasks = []
    for name, alphabet, L in (('Q', T.SIGMA_Q, b['LQ']), ('F', T.SIGMA_FULL, b['LF'])):
        viable = e1.seeds(alphabet, 2, visit, parent)
        tasks += [('tok', name, p, L) for p in viable]
    for c in T.SIGMA_CHAR:
        api_trio(parent, c)
        tasks.append(('chr', c, b['M']))
    letters = 'abcdefghijklmnopqrstuvwxyzABCDEFGHIJKLMNOPQRSTUVWXYZ0123456789'
    tasks += [('esc', letters[i:i + 4]) for i in range(0, len(letters), 4)]
    nsk = len(_skeletons(b['N']))
    step = max(1, nsk // 256)
    tasks += [('sent', b['N'], lo, min(nsk, lo + step)) for lo in range(0, nsk, step)]
    tasks = runner.rotate(tasks, seed)
    total = runner.run_tasks(work, tasks)
    total.merge(parent)
    # (d) nesting sweep, subprocesses
    import multiprocessing as mp
    cases = [(name, d) for name in sorted(NEST) for d in b['DEPTHS']]
    with mp.get_context('fork').Pool(8) as pool:
        nres = pool.map(nest_case, cases)
    nest_out = []
    for name, depth, rc, line in nres:
        total.count('nesting_cases')
        nest_out.append(f'{name}^{depth}: rc={rc} {line[7:] if line.startswith("RESULT ") else line}')
        if rc != 0 or 'BASE:' in line or not line.startswith('RESULT '):
            total.violation(f'nesting:{name}', 'deep nesting crashed the interpreter or raised a non-Exception',
                            {'construct': name, 'depth': depth, 'expected': 'exit status 0, ordinary exceptions only',
                             'observed': f'rc={rc} {line}'})
        else:
            total.outcome(f'nest:{name}:{line}')
    n = total.n
    reached = n.get('failing_leaf_reached', 0)
    if reached == 0:
        print('INTERNAL-ERROR: no failing leaf was ever reached (vacuous)')
        return 2
    cov = {
        'states': n.get('strings', 0) + n.get('failing_programs', 0),
        'transitions': 3 * n.get('strings', 0) + n.get('failing_programs', 0) + 3 * len(cases),
        'traces_validated_against_impl': n.get('strings', 0) + reached,
        'evaluations': n.get('strings', 0) + n.get('failing_programs', 0),
        'distinct_nontrivial': len(total.outcomes),
        'rule': 'parse/eval/list_names on every string of the token spaces (SIGMA_Q <= %d, SIGMA_FULL <= %d), the character '
                'space (<= %d) and every truncation of every statement with <= %d nodes; every such statement with each of %d '
                'failing expression leaves at every leaf position (bare and fully parenthesised) and %d failing statements; '
                'nesting sweep %s. distinct_nontrivial = distinct (api, outcome class) and (failure kind, raised class) pairs.'
                % (b['LQ'], b['LF'], b['M'], b['N'], len(FAIL_EXPR), len(FAIL_STMT), b['DEPTHS']),
        'exhaustive': True,
        'bounds': b,
        'nesting': nest_out,
    }
    return runner.finish(ID, tier, seed, total, cov, [
        'a failing operation is identified by an external tracer (node entered, exception leaving that node)',
        'ill-typed programs may raise TypeError etc.; only the failures listed in the property must be ParserError',
    ], t0)


def replay(w):
    res = runner.Result()
    opwrap.install()
    if 'construct' in w:
        r = nest_case((w['construct'], w['depth']))
        bad = r[2] != 0 or 'BASE:' in r[3]
        return ('REPRODUCED' if bad else 'HOLDS') + f'\n {r!r}'
    if 'kind' in w:
        run_failing(res, w['text'], w['kind'], dict(host_names(), hl=[1, 2], hd={'k': 1}, he=[]))
    elif 'budget' in w:
        R = e1.get_real()
        try:
            R.parser.eval(w['text'], host_names(), max_ops_evaluated=1)
            return 'REPRODUCED\n no error with budget 1'
        except R.api.OpsLimit:
            return 'HOLDS'
        except BaseException as e:  # noqa
            return f'REPRODUCED\n {e!r}'
    else:
        api_trio(res, w['text'])
        api_trio(res, w['text'])
    return ('REPRODUCED' if res.viol else 'HOLDS') + f"\n text={w['text']!r}\n " + repr({k: v[0] for k, v in res.viol.items()})
