"""C13 - non-mutating builtins never modify their arguments.

E4 product: every key of FUNCTIONS that is not a mutator (read at run time, so a new builtin
is included by default) x every argument tuple of arity 1..3 over a shape alphabet, called
directly and through eval in the three call syntaxes, plus two-stage pipelines where a
mutator is applied to the *result* of a container-building builtin.
Oracle: deep snapshot (contents and identity structure) of all arguments and host objects
before == after, whatever the call returns or raises; a container-building builtin must not
return one of its arguments itself.
"""
import collections
import itertools

from ..core import runner, snapshot

ID = 'C13'

BOUNDS = {
    'quick': dict(ARITY3='reduced', BIG=True),
    'thorough': dict(ARITY3='full', BIG=True),
}

MUTATORS = {'push', 'pop', 'insert', 'remove', '__setitem__', '__setitem_with_op__', '__delitem__'}
BUILDS_NEW = {'sorted', 'reversed', 'shuffle', 'map', 'filter', 'enumerate', 'keys', 'values', 'items',
              'list', 'dict', 'split', 'match_all', 'match_groups'}
# language lambdas (source text) and their Python counterparts for direct calls
LAMBDAS = {
    'three': ('(a, b, c) => a', lambda a, b=None, c=None: a),
    'idx': ('r => r[2]', lambda r: r[2]),
    'id': ('v => v', lambda v: v),
    'first2': ('(a, b) => a', lambda a, b: a),
    'true': ('v => True', lambda v: True),
    'add': ('(a, b) => a + b', lambda a, b: a + b),
    'len': ('v => len(v)', lambda v: len(v)),
    # bodies that compute with their argument through non-mutating operators only (and / or / if-else hand an operand on as it is)
    'orplus': ('v => (v or [0]) + [1]', lambda v: (v or [0]) + [1]),
    'ifplus': ('(a, b) => ((a if a else a) + a) and a', lambda a, b=None: ((a if a else a) + a) and a),
}


def _K1(*a):
    return a[0] if a else 0


def _K2(*a):
    return 0


def shapes():
    api = snapshot.api()
    D = api.Decimal
    inner = [D(7)]
    return {
        'nums': lambda: [D(3), D(1), D(2), D(1)],
        'strs': lambda: ['b', 'a', 'c'],
        'nested': lambda: [[D(2), D(1)], [D(0)], [D(4), D(5)]],
        'one': lambda: [D(5)],
        'elist': lambda: [],
        'dict': lambda: {'b': D(1), 'a': D(2)},
        'ndict': lambda: {'a': {'x': [D(1)]}, 'inner': {}, 'l': [D(3), D(2)]},
        'edict': lambda: {},
        'str': lambda: 'hello world',
        'num': lambda: D(2),
        'zero': lambda: D(0),
        'none': lambda: None,
        'true': lambda: True,
        'key': lambda: 'a',
        'missing': lambda: 'zz',
        'tuples': lambda: [('a', [D(1)]), ('b', [D(2)])],
        'hint': lambda: 1,
        'idict': lambda: {1: 'one', 2: 'two', 'name': 'n', True: 'yes', None: 'no', 2.5: 'f'},
        'rows': lambda: [{1: D(1), 'a': [D(1)]}, {2: D(2)}],
        'short-rows': lambda: [[D(1), D(2), D(3)], [D(4)], [D(5), D(6)]],
        # dict subclasses a host may bind: lookups by the non-mutating builtins must not provoke __missing__ / reorder
        'ddict': lambda: collections.defaultdict(list, {'a': D(1), 'b': [D(2)]}),
        'odict': lambda: collections.OrderedDict([('b', D(1)), ('a', D(2))]),
        # host numbers of the three host types: a builtin may convert what it computes with, never what the host holds
        'nums-none': lambda: [D(3), None, D(1), None],
        'floats': lambda: [1.5, 2.25, 3.0],
        'mixed-num': lambda: [1, 2.5, D(3), True, D('0.1')],
        'fdict': lambda: {'a': 0.5, 'b': 2, 'c': [1.5]},
        'fns': lambda: [_K1, _K2, _K1],
        'long-desc': lambda: [D(100 - i) for i in range(100)],
        'long-strs': lambda: ['s%03d' % (200 - i) for i in range(150)],
    }


REDUCED = ['nums', 'dict', 'str', 'num', 'elist', 'true', 'missing']


def deep(v, memo, order):
    if isinstance(v, (list, dict)):
        if id(v) in memo:
            return ('ref', memo[id(v)])
        order[0] += 1
        n = memo[id(v)] = order[0]
        if isinstance(v, list):
            return ('L', n, [deep(x, memo, order) for x in v])
        return ('D', n, [(k, deep(x, memo, order)) for k, x in v.items()])
    if isinstance(v, tuple):
        return ('T', [deep(x, memo, order) for x in v])
    if callable(v):
        if id(v) not in memo:
            order[0] += 1
            memo[id(v)] = order[0]
        return ('fn', memo[id(v)])
    return (type(v).__name__, str(v))


def snap(objs):
    memo, order = {}, [0]
    return repr([deep(o, memo, order) for o in objs])


_parser = [None]


def _reset():
    _parser[0] = None


runner.TASK_INIT.append(_reset)


def parser():
    if _parser[0] is None:
        _parser[0] = snapshot.api().new_parser()
    return _parser[0]


def call_forms(fname, argn):
    """Source texts for a call of fname with argument texts argn (3 syntaxes)."""
    forms = [f'{fname}({", ".join(argn)})']
    if argn:
        rest = ', '.join(argn[1:])
        forms.append(f'{argn[0]}.{fname}({rest})')
        forms.append(f'{argn[0]} | {fname}({rest})' if rest else f'{argn[0]} | {fname}')
    return forms


def check_case(res, fname, combo, shp, frozen_rng):
    api = snapshot.api()
    f = api.FUNCTIONS[fname]
    # ---- direct call
    args = []
    for s in combo:
        if s.startswith('λ'):
            args.append(LAMBDAS[s[1:]][1])
        else:
            args.append(shp[s]())
    host = [a for a in args if not callable(a)]
    before = snap(host)
    out = None
    try:
        out = f(*args)
        res.outcome(f'{fname}:ok')
    except Exception as e:  # noqa
        res.outcome(f'{fname}:{type(e).__name__}')
    res.count('direct_calls')
    after = snap(host)
    if before != after:
        res.violation(f'mutates:{fname}:{_cls(combo)}', f'builtin {fname} modified one of its arguments (direct call)',
                      {'function': fname, 'args': list(combo), 'mode': 'direct', 'expected': before, 'observed': after})
    if fname in BUILDS_NEW and isinstance(out, (list, dict)) and any(out is a for a in host):
        res.violation(f'returns-argument:{fname}:{_cls(combo)}', f'builtin {fname} returned its argument itself instead of a new container',
                      {'function': fname, 'args': list(combo), 'mode': 'direct', 'expected': 'a new container', 'observed': 'the argument object'})
    # ---- through eval, three syntaxes (+ mutator applied to the result of container builders)
    argn = []
    for i, s in enumerate(combo):
        argn.append(LAMBDAS[s[1:]][0] if s.startswith('λ') else f'a{i}')
    texts = call_forms(fname, argn)
    if fname in BUILDS_NEW:
        base = texts[0]
        texts = texts + [f'push({base}, 99)', f'r = {base}; r[0] = 99', f'{base} | pop', f'insert({base}, 0, 98)',
                         f'{base} | {fname if len(combo) == 1 else "reversed"} | push(97)']
    for text in texts:
        names = {}
        host = []
        for i, s in enumerate(combo):
            if not s.startswith('λ'):
                names[f'a{i}'] = shp[s]()
                host.append(names[f'a{i}'])
        before = snap(host)
        try:
            parser().eval(text, names, max_ops_evaluated=100000)
        except Exception:  # noqa
            pass
        res.count('eval_calls')
        after = snap(host)
        if before != after:
            kind = 'pipeline' if text not in texts[:3] else 'eval'
            res.violation(f'mutates:{fname}:{kind}:{_cls(combo)}',
                          f'a host object was modified by a program that only calls {fname} on it',
                          {'function': fname, 'args': list(combo), 'mode': 'eval', 'program': text, 'expected': before, 'observed': after})


    # ---- every abort point: the same call under every budget N (the builtin is interrupted inside its N-th operation, in particular
    # inside each invocation of its callback), and with a callback that fails at its j-th invocation - a builtin that works in
    # place and restores its argument afterwards is caught here
    if any(s.startswith('λ') for s in combo) and (len(combo) == 2 or ABORT_ALL[0]):
        api_err = api.OpsLimit
        for text in texts[:1] + [t.replace(LAMBDAS[c[1:]][0], FAILING[j]) for c in combo if c.startswith('λ') for j in range(len(FAILING)) for t in texts[:1]]:
            for N in range(2, ABORT_CAP):
                names = {}
                host = []
                for i, s in enumerate(combo):
                    if not s.startswith('λ'):
                        names[f'a{i}'] = shp[s]()
                        host.append(names[f'a{i}'])
                names['cnt'] = [api.Decimal(0)]
                before = snap(host)
                limited = False
                try:
                    parser().eval(text, names, max_ops_evaluated=N)
                except api_err:
                    limited = True
                except Exception:  # noqa
                    pass
                res.count('eval_calls')
                res.count('abort_points')
                after = snap(host)
                if before != after:
                    res.violation(f'mutates:{fname}:aborted:{_cls(combo)}',
                                  f'a host object was left modified by a call of {fname} that was interrupted (ops limit or failing callback)',
                                  {'function': fname, 'args': list(combo), 'mode': 'eval-aborted', 'program': text, 'budget': N,
                                   'expected': before, 'observed': after})
                    break
                if not limited:
                    break


ABORT_CAP = 70
ABORT_ALL = [False]      # thorough: also the arity-3 tuples
# callbacks that fail at their 2nd / 3rd invocation (a counter kept in a host list, advanced by a compound index assignment)
FAILING = ['(a, b, c) => [__setitem_with_op__(cnt, 0, "+=", 1), 1 / (2 - cnt[0]), a][2]',
           '(a, b, c) => [__setitem_with_op__(cnt, 0, "+=", 1), u_undefined if cnt[0] > 2 else a][1]']


def _cls(combo):
    return ','.join(combo)


def big_cases(res):
    """A host list above the cap through every arity-1 builtin."""
    api = snapshot.api()
    for fname in sorted(api.FUNCTIONS):
        if fname in MUTATORS or fname.startswith('match') or fname in ('rand',):
            continue
        for n in (10000, 10001):
            big = list(range(n))
            names = {'a0': big}
            try:
                parser().eval(f'{fname}(a0) | len', names, max_ops_evaluated=100)
            except Exception:  # noqa
                pass
            res.count('eval_calls')
            if len(big) != n or big[-1] != n - 1 or big[0] != 0 or big[n // 2] != n // 2:
                res.violation(f'mutates:{fname}:big', f'builtin {fname} modified a long host list',
                              {'function': fname, 'args': [f'list(range({n}))'], 'mode': 'eval', 'program': f'{fname}(a0) | len',
                               'expected': f'{n} elements', 'observed': f'{len(big)} elements'})


def shadowed_inner(res, shp):
    """F(B(a0)) in the three syntaxes where B - the name of a builtin that normally returns a NEW list - is bound by the program (a lambda) or
    by the host (a function) to something that hands its argument on: F still may not change the host object."""
    api = snapshot.api()
    outer = sorted(k for k in api.FUNCTIONS if k not in MUTATORS and not k.startswith('__'))
    inner = sorted(k for k in api.FUNCTIONS if k in BUILDS_NEW or k in ('keys', 'values', 'items', 'list', 'filter', 'map', 'sorted', 'reversed'))
    for shape in ('nums', 'strs', 'nested', 'dict', 'ndict', 'long-desc', 'rows'):
        for B in inner:
            for F in outer:
                if F == B:
                    continue
                for how in ('program', 'host'):
                    for text in (f'{F}({B}(a0))', f'{B}(a0) | {F}', f'{B}(a0).{F}()', f'a0.{B}() | {F}'):
                        names = {'a0': shp[shape]()}
                        host = [names['a0']]
                        if shape in ('ndict', 'rows'):
                            names['pick'] = (lambda d: d['l']) if shape == 'ndict' else (lambda d: d[0])
                        prog = text
                        if how == 'program':
                            prog = f'{B} = v => v; ' + text
                        else:
                            names[B] = lambda v, *a: v
                        before = snap(host)
                        try:
                            parser().eval(prog, names, max_ops_evaluated=100000)
                        except Exception:  # noqa
                            pass
                        res.count('eval_calls')
                        res.count('shadowed_inner_calls')
                        after = snap(host)
                        if before != after:
                            res.violation(f'mutates:{F}:inner-call-shadowed:{how}', f'a host object was modified by {F} applied to the result of a call of a '
                                          f'{how}-bound function that carries the name of a builtin', {'function': F, 'args': [shape], 'mode': 'eval', 'program': prog,
                                                                                                    'host_binds': B if how == 'host' else None, 'expected': before, 'observed': after})


def work(task):
    res = runner.Result()
    api = snapshot.api()
    # the random source is irrelevant here: freeze it
    import random as _r
    api.functions.random.seed(12345)
    shp = shapes()
    kind = task[0]
    if kind == 'big':
        big_cases(res)
        return res
    if kind == 'shadowed-inner':
        shadowed_inner(res, shp)
        return res
    _, fname, arity, mode = task
    ABORT_ALL[0] = mode == 'full'
    names = sorted(shp)
    lam = ['λ' + k for k in sorted(LAMBDAS)]
    if arity == 1:
        combos = [(a,) for a in names]
    elif arity == 2:
        combos = [(a, b) for a in names for b in names + lam]
    else:
        pool = names if mode == 'full' else REDUCED
        combos = [(a, b, c) for a in (names if mode == 'full' else ['nums', 'dict', 'ndict', 'nested', 'str', 'strs', 'tuples'])
                  for b in pool + lam for c in pool + ['λid']]
    for combo in combos:
        if fname == '__getitem__' and combo[0] == 'ddict':
            # `d[k]` on a mapping with __missing__ runs the host object's own hook (that is what a defaultdict is for); whether
            # that is the builtin "changing its argument" is not something the statement fixes - not enumerated (see DESIGN.md 7)
            res.count('skipped_host_missing_hook')
            continue
        check_case(res, fname, combo, shp, None)
        res.count('cases')
    if arity == 2 and fname == 'sorted':
        res.sample({'function': fname, 'args': list(combos[3]), 'programs': call_forms(fname, ['a0', 'a1'])})
    return res


def main(tier, seed, t0):
    b = BOUNDS[tier]
    api = snapshot.api()
    fns = sorted(k for k in api.FUNCTIONS if k not in MUTATORS)
    tasks = [('big',), ('shadowed-inner',)]
    for fname in fns:
        for arity in (1, 2, 3):
            tasks.append(('fn', fname, arity, b['ARITY3']))
    tasks = runner.rotate(tasks, seed)
    total = runner.run_tasks(work, tasks)
    n = total.n
    cov = {
        'states': n.get('cases', 0),
        'transitions': n.get('direct_calls', 0) + n.get('eval_calls', 0),
        'traces_validated_against_impl': n.get('direct_calls', 0) + n.get('eval_calls', 0),
        'evaluations': n.get('direct_calls', 0) + n.get('eval_calls', 0),
        'distinct_nontrivial': len(total.outcomes),
        'rule': 'every non-mutator key of FUNCTIONS (%d found at run time) x every argument tuple of arity 1, 2 (17 shapes + 5 '
                'lambdas) and 3 (%s), direct call + three call syntaxes through eval + five mutator-on-result pipelines for '
                'container-building builtins; host lists of 10000/10001 elements through every builtin. distinct_nontrivial = '
                'distinct (builtin, outcome class).' % (len(fns), b['ARITY3']),
        'exhaustive': True,
        'functions': fns,
        'bounds': b,
    }
    return runner.finish(ID, tier, seed, total, cov, [
        'mutators are exactly: ' + ', '.join(sorted(MUTATORS)),
        'results that are parts of an argument (get, index read, min/max/reduce/rand results) may legitimately alias it; only '
        'container-building builtins are required to return a new container',
    ], t0)


def replay(w):
    res = runner.Result()
    snapshot.api().functions.random.seed(12345)
    if w['args'] and w['args'][0].startswith('list(range'):
        big_cases(res)
    else:
        check_case(res, w['function'], tuple(w['args']), shapes(), None)
    hit = {k: v[0] for k, v in res.viol.items() if w['function'] in k}
    return ('REPRODUCED' if hit else 'HOLDS') + f"\n {w['function']}{tuple(w['args'])}\n " + repr(hit)
