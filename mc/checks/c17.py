"""C17 - the parse cache is transparent.

Explicit-state BFS over call sequences: {parse, eval} x sources (repeated, near-duplicates that
differ only in surrounding blanks / newlines / form feeds, failing, literal containers, lambdas,
statement lists) x names {fresh, persistent} x budgets, plus the host action "mutate the value
returned last, at every depth".  Each history runs in lock-step on a parser WITH a parse cache
(kinds: dict, LRU(1), LRU(2), evict-everything, refuse-long-keys, pre-warmed by parse, pre-warmed
by eval) and on a parser without one.
Oracle: identical per-call result / exception class and message / names contents / parsed tree;
every tree held by the cache is structurally unchanged since its insertion.
"""
import collections
from collections.abc import MutableMapping

from ..core import runner, snapshot, clone
from .c11 import dump_obj, show

ID = 'C17'

BOUNDS = {
    'quick': dict(DEPTH=1, DEEP=3, DEEP_LEVELS=0, KINDS=['dict', 'lru1', 'evict', 'warm-eval']),
    'thorough': dict(DEPTH=1, DEEP=3, DEEP_LEVELS=0, KINDS=['dict', 'lru1', 'lru2', 'evict', 'refuse-long', 'warm-parse', 'warm-eval']),
}

LONGLIST = '[' + ', '.join(str(i) for i in range(40)) + ']'
LONGCHAIN = '1' + ' + 1' * 400
SOURCES = ['1', ' 1', '1 ', '\n1', '1\n', '\f1', '1\f', '1\xa0', '1\r', '[1, 2]', '{"a": [1]}', '{"a": {"b": 1}}', 'x = [1]; x', 'f = v => [v]; f(1)',
           # different programs whose token VALUES coincide (a name / a string / a number of the same spelling)
           '"1"', 'k == "l"', 'k == l', '%l% | len', '"l" | len',
           '1 +', 'u', 'x = 7\ny = = 2', 'push(l, 9)\n1 +', 'x = 8;\n\n)', 'map(l, v => v + k)', '[[1], {"c": [2]}]', 'x = {"a": {"b": [1]}}; x["a"]', 'l', 'push(l, 3); l',
           'r = []; push(r, [0]); r', 'k if k else [k]',
           'k\n-1', 'k -1', 'len(l)\n[2]', 'len(l) [2]', 'k == "a  b"', 'k == "a b"', '\n\nx = = 1', 'x = = 1', 'x = 1\nk', 'x = 1 k', ' [1,\n 2] ', '[1, 2]\n', 'len([1, 2 3', 'x = 10\ny = 2\nx * y', 'k(', '{"a": [1,\n2 3]}', 'fa(10)',
           '[]', '{}', 'k if False else []', 'acc = x => []; push(acc(0), 7); acc(0)', '"a  b" | len', '"a b" | len', '%l% | len', 'len("\t\t")', 'len("\t")',
           '[[], {}]', LONGLIST, 'pop(' + LONGLIST + ')', '{"t": [' + LONGLIST + ']}',
           # texts a cache may key / copy / hash differently than the parser reads them: lone surrogates, a tree 400 levels deep
           '"\ud83d" + "x"', 'len("\udc00") # \udfff', LONGCHAIN,
           # canonically equivalent, different texts (composed / decomposed, OHM SIGN / OMEGA)
           'len("caf\u00e9")', 'len("cafe\u0301")', '"\u2126" == "\u03a9"', '"\u03a9" == "\u03a9"']
WARM = ['1', '{"a": {"b": 1}}', 'map(l, v => v + k)', 'f = v => [v]; f(1)', '[[1], {"c": [2]}]']


class LRU(MutableMapping):
    def __init__(self, n):
        self.n = n
        self.d = collections.OrderedDict()

    def __getitem__(self, k):
        v = self.d[k]
        self.d.move_to_end(k)
        return v

    def __setitem__(self, k, v):
        self.d[k] = v
        self.d.move_to_end(k)
        while len(self.d) > self.n:
            self.d.popitem(last=False)

    def __delitem__(self, k):
        del self.d[k]

    def __iter__(self):
        return iter(self.d)

    def __len__(self):
        return len(self.d)

    def __contains__(self, k):
        return k in self.d


class EvictAll(MutableMapping):
    """Accepts every insertion and keeps nothing."""

    def __getitem__(self, k):
        raise KeyError(k)

    def __setitem__(self, k, v):
        pass

    def __delitem__(self, k):
        raise KeyError(k)

    def __iter__(self):
        return iter(())

    def __len__(self):
        return 0

    def __contains__(self, k):
        return False


class RefuseLong(dict):
    def __setitem__(self, k, v):
        if len(k) <= 4:
            dict.__setitem__(self, k, v)


class Recording(MutableMapping):
    """Wraps a cache; remembers a structural dump of every tree at insertion."""

    def __init__(self, inner):
        self.inner = inner
        self.dumps = {}

    def __getitem__(self, k):
        return self.inner[k]

    def __setitem__(self, k, v):
        self.inner[k] = v
        self.dumps[k] = repr(dump_obj(v))

    def __delitem__(self, k):
        del self.inner[k]

    def __iter__(self):
        return iter(self.inner)

    def __len__(self):
        return len(self.inner)

    def __contains__(self, k):
        return k in self.inner


def make_cache(kind):
    if kind == 'dict' or kind.startswith('warm'):
        return {}
    if kind == 'lru1':
        return LRU(1)
    if kind == 'lru2':
        return LRU(2)
    if kind == 'evict':
        return EvictAll()
    if kind == 'refuse-long':
        return RefuseLong()
    raise ValueError(kind)


def actions():
    acts = []
    for s in SOURCES:
        acts.append(('parse', s))
        for nk in ('fresh', 'P'):
            acts.append(('eval', s, nk, None))
    for s in ('map(l, v => v + k)', '{"a": {"b": 1}}', 'f = v => [v]; f(1)', '[[1], {"c": [2]}]'):
        for bud in (6, 9, 14):
            acts.append(('eval', s, 'P', bud))
    for src in ('fa(10)', 'fa(1) + k'):
        for variant in ('inc', 'dbl', None):
            acts.append(('eval-ast', src, 'P', variant))
    acts.append(('mutate-last',))
    acts.append(('set-k',))
    return acts


def deep_mutate(v, depth=0):
    """Host edits the value it was handed: a marker goes into every container, at every depth."""
    if depth > 6:
        return
    if isinstance(v, list):
        for x in list(v):
            deep_mutate(x, depth + 1)
        v.append('HOST')
    elif isinstance(v, dict):
        for x in list(v.values()):
            deep_mutate(x, depth + 1)
        v['HOST'] = 'HOST'


_template = [None]


def template():
    if _template[0] is None:
        _template[0] = snapshot.api().new_parser()
    return _template[0]


class World:
    def __init__(self, cache):
        api = snapshot.api()
        self.p = clone.pristine(template())
        self.p.parse_cache = cache
        D = api.Decimal
        self.P = {'l': [D(1), D(2)], 'k': D(10)}
        self.last = None

    def call(self, act):
        kind = act[0]
        try:
            if kind == 'parse':
                t = self.p.parse(act[1])
                return ('ok', repr(dump_obj(t)))
            if kind == 'eval':
                names = {'l': [snapshot.api().Decimal(7)], 'k': snapshot.api().Decimal(1)} if act[2] == 'fresh' else self.P
                kw = {} if act[3] is None else {'max_ops_evaluated': act[3]}
                r = self.p.eval(act[1], names, **kw)
                self.last = r
                return ('ok', show(r), show(names))
            if kind == 'eval-ast':
                api = snapshot.api()
                ops = api.ast_ops
                ast_names = None
                if act[3] is not None:
                    body = 'v + 1' if act[3] == 'inc' else 'v * 2'
                    ast_names = {'fa': ops.LambdaOp(args=[ops.NameOp('v')], expr=clone.pristine(template()).parse(body))}
                r = self.p.eval(act[1], self.P, ast_names=ast_names)
                self.last = r
                return ('ok', show(r), show(self.P))
            if kind == 'mutate-last':
                deep_mutate(self.last)
                return ('ok', show(self.last))
            if kind == 'set-k':
                self.P['k'] = snapshot.api().Decimal(100)
                return ('ok',)
        except Exception as e:  # noqa
            return ('exc', type(e).__name__, str(e))


def run_history(res, kind, hist):
    rec = Recording(make_cache(kind))
    A = World(rec)
    B = World(None)
    if kind.startswith('warm'):
        for s in WARM:
            try:
                if kind == 'warm-parse':
                    A.p.parse(s)
                else:
                    A.p.eval(s, {'l': [snapshot.api().Decimal(0)], 'k': snapshot.api().Decimal(5)})
            except Exception:  # noqa
                pass
    for i, act in enumerate(hist):
        ra = A.call(act)
        rb = B.call(act)
        res.count('calls')
        w = {'cache': kind, 'history': [list(a) for a in hist[:i + 1]]}
        if ra != rb:
            prev = hist[i - 1][0] if i else 'start'
            res.violation(f'differs:{kind}:{act[0]}:{_src(act)}<-{prev}', 'a parser with a parse cache behaves differently from one without',
                          dict(w, expected=repr(rb)[:300], observed=repr(ra)[:300]))
            return None, False
        if show(A.P) != show(B.P):
            res.violation(f'names:{kind}:{act[0]}:{_src(act)}', 'persistent names differ between cached and uncached parser',
                          dict(w, expected=repr(show(B.P))[:300], observed=repr(show(A.P))[:300]))
            return None, False
        for k in list(rec.inner):
            try:
                tree = rec.inner[k]
            except KeyError:
                continue
            if repr(dump_obj(tree)) != rec.dumps.get(k):
                res.violation(f'tree-mutated:{kind}:{act[0]}:{_src(act)}', 'a cached tree was altered after its insertion',
                              dict(w, key=k, expected=rec.dumps.get(k, '')[:200], observed=repr(dump_obj(tree))[:200]))
                return None, False
    st = repr((sorted(rec.dumps.items()), sorted(repr(k) for k in rec.inner), show(A.P), show(A.last), scalar_state(A.p)))
    return st, True


def scalar_state(p):
    """Small scalar attributes of the parser, its lexer and its LALR driver (bracket depth, counters, flags): part of the
    canonical state so that a history is still extended after a call that only changed those.  Text positions and the
    text itself are left out (they differ after every call and are C11's business)."""
    out = []
    for label, obj in (('p', p), ('lex', p.lex), ('yacc', p.yacc)):
        for k, v in sorted(vars(obj).items()):
            if k in ('lexpos', 'lexlen', 'lineno', 'lexdata'):
                continue
            if isinstance(v, (bool, int, type(None))):
                out.append((label, k, v))
            elif isinstance(v, (list, dict, set, tuple)) and len(v) < 50:
                out.append((label, k, len(v)))
    return out


def _src(act):
    return repr(act[1])[:22] if len(act) > 1 else ''


DEEP_SOURCES = {'push(l, 9)\n1 +', 'len("caf\u00e9")', 'len("cafe\u0301")', '"\ud83d" + "x"', LONGCHAIN, LONGLIST, 'pop(' + LONGLIST + ')', '[]', '{}', 'k if False else []', '"a  b" | len', '"a b" | len', '[[], {}]', 'len([1, 2 3', 'x = 10\ny = 2\nx * y', 'k\n-1', 'k -1', '\n\nx = = 1', 'x = = 1', '1 +', ' 1', '{"a": {"b": 1}}', 'map(l, v => v + k)', 'f = v => [v]; f(1)', '[[1], {"c": [2]}]', '1', '\f1', 'x = {"a": {"b": [1]}}; x["a"]'}


PARSE_AGAIN = {'1\f', '1\xa0', '1 ', '1', 'x = = 1', '1\r'}


def deep_actions():
    return [a for a in actions() if a[0] in ('mutate-last', 'set-k', 'eval-ast') or (a[0] == 'eval' and a[1] in DEEP_SOURCES and a[3] in (None, 9))
            or (a[0] == 'parse' and a[1] in PARSE_AGAIN) or (a[0] == 'eval' and a[1] in PARSE_AGAIN and a[2] == 'P' and a[3] is None)]


CORE_SOURCES = {'"1"', 'k == "l"', 'k == l', 'x = 7\ny = = 2', 'push(l, 9)\n1 +', 'len("caf\u00e9")', 'len("cafe\u0301")', '"\ud83d" + "x"', LONGLIST, 'pop(' + LONGLIST + ')', '[]', '{}', 'k if False else []', '"a  b" | len', '"a b" | len', '{"a": {"b": 1}}', 'map(l, v => v + k)', 'len([1, 2 3', 'x = 10\ny = 2\nx * y', '\f1', '1', 'k\n-1', 'k -1'}


def core_actions():
    return [a for a in actions() if a[0] in ('mutate-last', 'set-k') or (a[0] == 'eval-ast' and a[1] == 'fa(10)')
            or (a[0] == 'eval' and a[1] in CORE_SOURCES and a[2] == 'P' and a[3] is None)
            or (a[0] == 'parse' and a[1] in ('1\xa0', '1\f', '1'))]


def work(task):
    kind, hists, deep = task
    res = runner.Result()
    acts = actions() if not deep else (deep_actions() if deep == 1 else core_actions())
    for hist in hists:
        for a in acts:
            h2 = list(hist) + [a]
            st, ok = run_history(res, kind, h2)
            res.count('transitions')
            if ok:
                res.outcome(runner.h(kind + st))
                res.bag.add((kind, runner.h(st), tuple(h2)))
    return res


def main(tier, seed, t0):
    b = BOUNDS[tier]
    snapshot.api()
    template()
    total = runner.Result()
    seen = set()
    frontier = [(k, ()) for k in b['KINDS']]
    depth = 0
    while frontier and depth < b['DEEP']:
        depth += 1
        tasks = []
        for kind in b['KINDS']:
            hs = [h for k, h in frontier if k == kind]
            n = max(1, len(hs) // 24 + 1)
            level = 0 if depth <= b['DEPTH'] else (1 if depth <= b['DEPTH'] + b.get('DEEP_LEVELS', 1) else 2)
            tasks += [(kind, hs[i:i + n], level) for i in range(0, len(hs), n)]
        tasks = runner.rotate(tasks, seed)
        r = runner.run_tasks(work, tasks, selftest=(depth == 1))
        new = []
        for kind, st, hist in sorted(r.bag, key=lambda x: (x[0], repr(x[2]))):
            if (kind, st) not in seen:
                seen.add((kind, st))
                new.append((kind, hist))
        r.bag = set()
        total.merge(r)
        frontier = new
        if depth == 2 and new:
            total.sample({'cache': new[len(new) // 2][0], 'history': [list(a) for a in new[len(new) // 2][1]]})
    n = total.n
    cov = {
        'states': len(seen),
        'transitions': n.get('transitions', 0),
        'traces_validated_against_impl': n.get('calls', 0),
        'evaluations': n.get('calls', 0),
        'distinct_nontrivial': len(total.outcomes),
        'rule': ('BFS to depth %d, then one level over the %d container / lambda / host-mutation actions, then the %d core actions to '
                 'depth %d; %d actions in all (parse / eval of %d sources incl. near-duplicates, failing, literal containers, lambdas, '
                 'ast_names variants; fresh / persistent names; budgets; host deep-mutation of the last result; a host rebinding) for '
                 'cache kinds %s, in lock-step with an uncached parser; states deduplicated on cache contents (keys + tree dumps) + '
                 'persistent names + last result + small scalar parser state.'
                 % (b['DEPTH'], len(deep_actions()), len(core_actions()), b['DEEP'], len(actions()), len(SOURCES), b['KINDS'])),
        'exhaustive': True,
        'frontier_exhausted': not frontier,
        'max_depth': depth,
        'bounds': b,
    }
    return runner.finish(ID, tier, seed, total, cov, [
        'history independence of a parser without cache is C11; here both worlds use one parser each for the whole history',
    ], t0)


def replay(w):
    res = runner.Result()
    hist = [tuple(a) for a in w['history']]
    run_history(res, w['cache'], hist)
    return ('REPRODUCED' if res.viol else 'HOLDS') + f"\n cache={w['cache']} history={hist!r}\n " + repr({k: v[1][:1] for k, v in res.viol.items()})[:800]
