"""C05 - regular-expression builtins cannot hang the host.

Enumerated: every pattern of a regex-tree grammar (atoms x up to three nested quantifiers x
sequence / alternation of two x suffix x prefix) x subjects (a^30 b, a^1000, a^100000,
(ab)^50000, many-short-matches) x flag strings x the three builtins.
Oracles:
  1. deterministic, through a seam on smartquery.functions.regex (module proxy, compiled
     patterns proxied too): every matching call made by a builtin carries a timeout with
     0 < timeout <= 0.1 s, and the timeouts handed out by ONE builtin call sum to <= 0.1 s
     (so neither a missing timeout, a scaled timeout nor a per-match timeout passes);
  2. timing, in killable child processes (address-space limit, kill after KILL_S of silence):
     wall time of the call <= 0.05 + 1 s + 10 us x (len(pattern) + len(subject)); a case over
     the bound is re-run twice alone and only reported if it is over the bound all three times;
     compile time is measured separately so the signature names the phase.
"""
import multiprocessing as mp
import os
import time

from ..core import runner, snapshot

ID = 'C05'

BOUNDS = {
    'quick': dict(LEVELS=2, ATOMS=3, QUANTS=4, FLAGS=['', 'ims'], SUBJECTS=4, PREFIXES=2),
    'thorough': dict(LEVELS=3, ATOMS=5, QUANTS=5, FLAGS=['', 'i', 'ims'], SUBJECTS=5, PREFIXES=2),
}

KILL_S = 3.0
# set (shared with all forked workers) once the property is known to be violated in a way that makes every
# further catastrophic call hang: the run then stops exploring instead of paying KILL_S for each of them
ABORT = mp.get_context('fork').Value('i', 0)
MAX_CALL_KILLS_PER_TASK = 4
ATOMS = ['a', '(a|aa)', '(a|a)', '.', r'\w', '[ab]', '(a)']
QUANTS = ['*', '+', '{1000}', '{1,30}', '?', '{2}']
SUFFIXES = ['', 'b', '$', r'\1', 'c']
PREFIXES = ['', '(?r)', '(?i)']
FUNCS = ['match', 'match_groups', 'match_all']
# flag strings are input too: long, blank-separated, with an invalid tail, upper case, unknown letters
ODD_FLAGS = ['i ' * 26 + '!', 'ims' * 200, ' ' * 2000, 'x' * 5000, 'I,M,S', 'i, m, s, ' * 12 + '?', 'i' * 40 + ' ' * 40 + 'q', 's\tm\ni' * 9 + '#']
# programs evaluated through eval: several regex calls in ONE evaluation, the first ones harmless but costly to compile
LONGPAT = '|'.join('w%05d' % i for i in range(6000))
PROGRAMS = [
    'match(s, big); match(s, evil)', 'match_all(s, big); match_groups(s, evil)', 'match(s, big); match(s, big2); match_all(s, evil)',
    'x = match(s, "a"); match(s, evil)', 'match(s, evil)', 'map([big, big2, evil], p => 1); match(s, big) or match(s, evil)',
    'match_groups(s, big, "i"); match(s, evil, "i")', 'l = [match(s, big), match(s, big2)]; match_all(s, evil)',
    'f = p => match(s, p); f(big); f(big2); f(evil)', 'match(s, big) or match(s, big2) or match(s, "b") or match(s, evil)',
]


# long subjects of unusual make-up: anything done to the subject outside the engine call (normalisation, case folding, splitting,
# escaping) is not covered by the engine timeout and must stay cheap too
SHORT_SUBJECTS = [('a14!', 'a' * 14 + '!'), ('a16', 'a' * 16), ('a12b', 'a' * 12 + 'b'), ('a9', 'a' * 9)]
SHORT_BOMBS = ['(?:a|a|a|a)+$', '(a|a|a|a|a)*$', '(a*)*$', '((a|aa)+)+$', '(?:a|a|a|a|a|a)+!!']
EXTRA_ARGS = [('', None), ('', 60), ('', 0), ('i', None, None), (None, None), ('', -1), ('', 10 ** 9)]
# a run of 60000 of every character that pre- or post-processing of a subject is likely to single out (line ends, blanks, quotes, escapes,
# separators, regex metacharacters, zero-width and byte-order marks), ending in one ordinary character
RUN_CHARS = ['\r', '\n', '\t', '\\', '"', "'", '%', '\x00', '\x0b', '\x0c', '\u2028', '\x85', '.', '(', '[', '*', '0', '\u0301', '\ufeff', '\u200b',
             '-', '{', '$', '^', '#', ';', ',', '|', '\x1c', '\xa0']
RUN_SUBJECTS = [('run60000:%04x' % ord(c), c * 60000 + 'x') for c in RUN_CHARS] + [('run60000:crlf', '\r\n' * 30000 + 'x'), ('run60000:cr-a', '\ra' * 30000)]
ODD_SUBJECTS = [('comb60000', '\u0315\u0300' * 30000), ('accents100000', '\u00e9' * 100000), ('blank100000', ' ' * 100000),
                ('nl50000', 'a\n' * 50000), ('astral30000', '\U0001F600' * 30000), ('casefold50000', '\u00df\u0130' * 25000)]


def subjects(n):
    s = [('a30b', 'a' * 30 + 'b'), ('a1000', 'a' * 1000), ('a100000', 'a' * 100000), ('manymatches', ('a' * 12 + '! ') * 300),
         ('ab50000', 'ab' * 50000)] + ODD_SUBJECTS + SHORT_SUBJECTS
    return s[:n] + (RUN_SUBJECTS if n > 8 else [])


def patterns(b):
    atoms = ATOMS[:b['ATOMS']]
    quants = QUANTS[:b['QUANTS']]
    out = []
    seen = set()

    def add(p):
        if p not in seen:
            seen.add(p)
            out.append(p)
    cores = []
    for at in atoms:
        layer = [at]
        for level in range(b['LEVELS']):
            nxt = []
            for p in layer:
                for q in quants:
                    body = p if (level == 0 and (len(p) == 1 or p.startswith('(') or p.startswith('[') or p.startswith('\\'))) else f'({p})'
                    if level > 0:
                        body = f'({p})'
                    nxt.append(body + q)
            cores += nxt
            layer = nxt
    for c in cores:
        for suf in SUFFIXES:
            if suf == r'\1' and '(' not in c:
                continue
            for pre in PREFIXES[:b['PREFIXES']]:
                add(pre + c + suf)
    # sequences / alternations of two one-level cores, two capture groups, fuzzy matching
    one = [f'{at}{q}' for at in atoms for q in quants[:3]]
    for x in one:
        for y in one:
            add(f'{x}{y}c')
            add(f'({x}|{y})+c')
    for x in ['(a|a)+', '(a|aa)+', '(a+)+', '(a*)*', r'(\w+)+']:
        add(f'{x}(b|b)*c')
        add(f'(x)?{x}(c)')
        add(f'(?:{x}){{e<=1}}c')
        add(f'(?:a|a)+c|a+!')
    return out


# --------------------------------------------------------------------------- seam

class Recorder:
    def __init__(self):
        self.calls = []     # (name, timeout or 'absent', seconds)
        self.compiles = []


class PatternProxy:
    ENGINE = {'search', 'match', 'fullmatch', 'findall', 'finditer', 'sub', 'subn', 'split', 'splititer', 'subf', 'subfn', 'scanner'}

    def __init__(self, pat, rec):
        object.__setattr__(self, '_p', pat)
        object.__setattr__(self, '_r', rec)

    def __getattr__(self, name):
        v = getattr(self._p, name)
        if name in self.ENGINE and callable(v):
            rec = self._r

            def call(*a, **k):
                t = time.perf_counter()
                try:
                    return v(*a, **k)
                finally:
                    rec.calls.append((f'pattern.{name}', k.get('timeout', 'absent'), time.perf_counter() - t))
            return call
        return v


class RegexProxy:
    ENGINE = {'search', 'match', 'fullmatch', 'findall', 'finditer', 'sub', 'subn', 'split', 'splititer', 'subf', 'subfn'}

    def __init__(self, mod, rec):
        self._m = mod
        self._r = rec

    def __getattr__(self, name):
        v = getattr(self._m, name)
        rec = self._r
        if name in self.ENGINE:
            def call(*a, **k):
                t = time.perf_counter()
                try:
                    return v(*a, **k)
                finally:
                    rec.calls.append((name, k.get('timeout', 'absent'), time.perf_counter() - t))
            return call
        if name == 'compile':
            def comp(*a, **k):
                t = time.perf_counter()
                p = v(*a, **k)
                rec.compiles.append(time.perf_counter() - t)
                return PatternProxy(p, rec)
            return comp
        return v


# --------------------------------------------------------------------------- child

def bound_for(pattern, subject):
    return 0.05 + 1.0 + 1e-5 * (len(pattern) + len(subject))


def _child(conn, jobs, mem):
    import resource
    try:
        resource.setrlimit(resource.RLIMIT_AS, (mem, mem))
    except (ValueError, OSError):
        pass
    api = snapshot.api()
    import regex as real_regex
    rec = Recorder()
    api.functions.regex = RegexProxy(real_regex, rec)
    subj = dict(subjects(99))
    for pattern, sname, flags, fname in jobs:
        s = subj[sname]
        out = {'compile_s': None, 'call_s': None, 'calls': [], 'result': None}
        if fname == '__program__':
            del rec.calls[:]
            p = api.new_parser()
            names = {'s': 'a' * 25000, 'big': LONGPAT, 'big2': LONGPAT.replace('w', 'v'), 'evil': r'\w+\d'}
            t = time.perf_counter()
            try:
                p.eval(pattern, names, max_ops_evaluated=1000)
                out['result'] = 'ok'
            except Exception as e:  # noqa
                out['result'] = type(e).__name__
            out['call_s'] = time.perf_counter() - t
            out['calls'] = [(n, (to if isinstance(to, (int, float)) or to is None else str(to))) for n, to, _ in rec.calls]
            conn.send(out)
            continue
        if fname == '__compile__':
            t = time.perf_counter()
            try:
                real_regex.compile(pattern)
                out['result'] = 'ok'
            except MemoryError:
                out['result'] = 'MemoryError'
            except Exception as e:  # noqa
                out['result'] = type(e).__name__
            out['compile_s'] = time.perf_counter() - t
            conn.send(out)
            continue
        del rec.calls[:]
        del rec.compiles[:]
        f = api.FUNCTIONS[fname]
        t = time.perf_counter()
        try:
            if isinstance(flags, (tuple, list)):
                f(s, pattern, *flags)       # more positional arguments than the builtin documents
            elif flags:
                f(s, pattern, flags)
            else:
                f(s, pattern)
            out['result'] = 'ok'
        except Exception as e:  # noqa
            out['result'] = type(e).__name__
        out['call_s'] = time.perf_counter() - t
        out['calls'] = [(n, (to if isinstance(to, (int, float)) or to is None else str(to))) for n, to, _ in rec.calls]
        if out['call_s'] > 0.25 * bound_for(pattern, s):
            # slow: time the same call again, now that the engine has the compiled pattern cached - compilation is judged by the
            # __compile__ job of the pattern (its own signature), and is what a loaded machine stretches over the bound first
            out['first_call_s'] = out['call_s']
            t = time.perf_counter()
            try:
                if isinstance(flags, (tuple, list)):
                    f(s, pattern, *flags)
                elif flags:
                    f(s, pattern, flags)
                else:
                    f(s, pattern)
            except Exception:  # noqa
                pass
            out['call_s'] = time.perf_counter() - t
        conn.send(out)


def supervised(jobs, mem=2 << 30, honour_abort=False):
    """Run jobs in a child; kill + restart after a job that is silent for KILL_S. One summary per job."""
    ctx = mp.get_context('fork')
    out = []
    i = 0
    kills = 0
    while i < len(jobs):
        if honour_abort and (ABORT.value or kills >= MAX_CALL_KILLS_PER_TASK):
            if kills >= MAX_CALL_KILLS_PER_TASK:
                ABORT.value = 1
            out.extend({'skipped': True} for _ in jobs[i:])
            break
        pc, cc = ctx.Pipe(False)
        p = ctx.Process(target=_child, args=(cc, jobs[i:], mem))
        p.start()
        cc.close()
        try:
            while i < len(jobs):
                if pc.poll(KILL_S):
                    try:
                        out.append(pc.recv())
                    except EOFError:
                        out.append({'killed': 'crash'})
                        i += 1
                        break
                    i += 1
                else:
                    out.append({'killed': 'silent'})
                    kills += 1
                    i += 1
                    break
                if honour_abort and ABORT.value:
                    break
        finally:
            if p.is_alive():
                p.kill()
            p.join()
    return out


def features(pattern):
    f = []
    if pattern.count('{1000}') >= 2:
        f.append('nested-counted-repeat')
    elif '{1000}' in pattern or '{1,30}' in pattern:
        f.append('counted-repeat')
    return '+'.join(f) or 'other'


def judge(res, job, summ, recheck):
    pattern, sname, flags, fname = job
    subj = dict(subjects(99))[sname]
    bnd = bound_for(pattern, subj)
    res.count('calls')
    w = {'pattern': pattern, 'subject': sname, 'flags': flags, 'function': fname}
    if fname == '__compile__':
        if 'killed' in summ or summ['compile_s'] > bnd:
            recheck.append((job, 'compile'))
            return False
        res.outcome(f'compile:{summ["result"]}')
        return True
    if 'skipped' in summ:
        res.count('calls_skipped_after_abort')
        return True
    if 'killed' in summ:
        recheck.append((job, 'call'))
        return True
    if fname == '__program__':
        tos = [to for n, to in summ['calls']]
        res.outcome(f'program:{summ["result"]}:{len(tos)}')
        bad = [to for to in tos if not (isinstance(to, (int, float)) and not isinstance(to, bool) and 0 < to <= 0.1)]
        if bad:
            res.violation('timeout-arg:program', 'inside one evaluation a regex engine call was made with no timeout or a timeout outside (0, 0.1]',
                          dict(w, expected='timeout in (0, 0.1] on every matching call', observed=repr(summ['calls'][:6])))
        # time: compile of the 48 KB alternations is legitimate and linear; the matching calls are bounded by their timeouts
        if summ['call_s'] > 0.1 * max(1, len(tos)) + 2.0 + 1e-5 * 25000:
            recheck.append((job, 'call'))
        return True
    # oracle 1: timeouts
    tos = [to for n, to in summ['calls']]
    res.outcome(f'{fname}:{summ["result"]}:{len(tos)}')
    bad = [to for to in tos if not (isinstance(to, (int, float)) and not isinstance(to, bool) and 0 < to <= 0.1)]
    if bad:
        ABORT.value = 1
        res.violation(f'timeout-arg:{fname}:{bad[0] if isinstance(bad[0], str) else "value"}',
                      'a regex engine call was made without a timeout or with a timeout outside (0, 0.1]',
                      dict(w, expected='timeout in (0, 0.1] on every matching call', observed=repr(summ['calls'][:4])))
    elif sum(tos) > 0.1 + 1e-9:
        res.violation(f'timeout-budget:{fname}', 'the timeouts handed out by one builtin call add up to more than 0.1 s',
                      dict(w, expected='sum of timeouts <= 0.1', observed=f'{len(tos)} engine calls, sum {sum(tos):.2f} s'))
    elif not tos and summ['result'] == 'ok':
        res.count('calls_without_engine_call')
    # oracle 2: timing
    if summ['call_s'] > bnd:
        recheck.append((job, 'call'))
    return True


def work(task):
    _, pats, b = task[:3]
    extra = len(task) > 3 and task[3]
    res = runner.Result()
    subs = [n for n, _ in subjects(b['SUBJECTS'])]
    recheck = []
    jobs = []
    for p in pats:
        jobs.append((p, subs[0], '', '__compile__'))
    summs = supervised(jobs)
    good = []
    for job, summ in zip(jobs, summs):
        if judge(res, job, summ, recheck):
            good.append(job[0])
    jobs = []
    for p in good:
        for sname in subs:
            for fl in b['FLAGS']:
                for fn in FUNCS:
                    jobs.append((p, sname, fl, fn))
    if extra:
        for prog in PROGRAMS:
            jobs.append((prog, subs[0], '', '__program__'))
        for fl in ODD_FLAGS:
            for fn in FUNCS:
                jobs.append(('a+b', subs[0], fl, fn))
        # short subjects are not cheap subjects: many-way alternations are exponential in 14 characters
        for sname, _ in SHORT_SUBJECTS:
            for pat in SHORT_BOMBS:
                for fl in ('', 'ims'):
                    for fn in FUNCS:
                        jobs.append((pat, sname, fl, fn))
        # a program may pass more arguments than documented: none of them may buy it a longer (or no) timeout
        for xa in EXTRA_ARGS:
            for fn in FUNCS:
                jobs.append(('(a|aa)+$', subs[0], xa, fn))
                jobs.append(('(?:a|a|a|a)+$', 'a14!', xa, fn))
        # every letter as a flag (alone and after a valid one): an unknown or new flag may not open a path without timeout
        for letter in 'abcdefghijklmnopqrstuvwxyzABCDEFGHIJKLMNOPQRSTUVWXYZ':
            for fl in (letter, 'i' + letter):
                for fn in FUNCS:
                    jobs.append(('(a|aa)+', 'a30b', fl, fn))
                    jobs.append(('(a|aa)+$', 'a30b', fl, fn))
        for sname, _ in RUN_SUBJECTS:
            for pat in ('x', 'done'):
                for fn in FUNCS:
                    jobs.append((pat, sname, '', fn))
        for sname, _ in ODD_SUBJECTS:
            for pat in ('x', 'a+b', r'\w+\d', r'(\s*)*$'):
                for fl in ('', 'ims'):
                    for fn in FUNCS:
                        jobs.append((pat, sname, fl, fn))
    summs = supervised(jobs, honour_abort=True)
    for i, (job, summ) in enumerate(zip(jobs, summs)):
        n_before = len(recheck)
        judge(res, job, summ, recheck)
        if len(recheck) > n_before and i > 0 and recheck[-1][1] == 'call':
            # a hang may depend on what the same process did just before: re-run WITH the predecessor
            recheck[-1] = (job, 'call', jobs[i - 1])
    for item in recheck:
        res.bag.add(item)
    res.count('patterns', len(pats))
    return res


def main(tier, seed, t0):
    b = BOUNDS[tier]
    snapshot.api()
    pats = patterns(b)
    step = max(1, len(pats) // 160)
    tasks = [('pats', pats[i:i + step], b) for i in range(0, len(pats), step)]
    tasks.append(('pats', pats[:2], b, True))
    tasks = runner.rotate(tasks, seed)
    total = runner.run_tasks(work, tasks, selftest=False)
    # confirmation runs: first all candidates once more in parallel (8 at a time, half the cores idle); the ones still
    # over the bound a third time, alone on the idle machine
    cands = sorted(total.bag, key=repr)
    # at most 24 confirmation runs per (phase, pattern feature class): a class that is confirmed 24 times is established
    per_class = {}
    kept = []
    for c in cands:
        key = (c[1], features(c[0][0]), c[0][3] if c[1] == 'call' else '')
        per_class[key] = per_class.get(key, 0) + 1
        if per_class[key] <= 24:
            kept.append(c)
        else:
            total.count('candidates_beyond_24_per_class_not_reconfirmed')
    cands = kept
    if ABORT.value:
        # the exploration was cut short: it is no longer exhaustive, and only a few candidates are confirmed
        cands = [c for c in cands if c[1] == 'compile'][:4] + [c for c in cands if c[1] == 'call'][:12]
    confirmed = 0
    import concurrent.futures as cf
    def rerun(c):
        if len(c) > 2:
            return supervised([c[2], c[0]])[-1]
        return supervised([c[0]])[0]
    with cf.ThreadPoolExecutor(max_workers=8) as ex:
        second = list(ex.map(rerun, cands))
    for c, summ2 in zip(cands, second):
        job, phase = c[0], c[1]
        pattern, sname, flags, fname = job
        subj = dict(subjects(99))[sname]
        bnd = bound_for(pattern, subj)

        def over(summ):
            t = None if 'killed' in summ else (summ['compile_s'] if phase == 'compile' else summ['call_s'])
            return t is None or t > bnd
        total.count('confirmation_runs')
        last = summ2
        is_over = over(summ2)
        if is_over and 'killed' not in summ2:
            # finished but slow: could be load - third run alone (a call killed twice for silence is a hang)
            last = rerun(c)
            total.count('confirmation_runs')
            is_over = over(last)
        if is_over and phase == 'call' and fname != '__program__':
            # whose time is it? compile the pattern alone, now, under the same machine load: if that alone eats a good part of
            # the bound (or has to be killed), the slowness belongs to compilation (its own signature), not to the matching call
            cs = supervised([(pattern, sname, '', '__compile__')])[0]
            total.count('confirmation_runs')
            if 'killed' in cs or (cs.get('compile_s') or 0) > 0.25 * bnd:
                phase = 'compile'
        if is_over:
            confirmed += 1
            if phase == 'compile':
                sig = f'compile-phase:{features(pattern)}'
                what = 'pattern compilation alone exceeds the time bound (the timeout does not cover compilation)'
            else:
                sig = f'call-time:{fname}:{features(pattern) if fname != "__program__" else "program"}' + (':after-previous-call' if len(c) > 2 else '')
                if flags in ODD_FLAGS:
                    sig = f'call-time:{fname}:flag-string'
                if isinstance(flags, (tuple, list)):
                    sig = f'call-time:{fname}:extra-arguments'
                what = 'a regex builtin exceeded the time bound'
            total.violation(sig, what, {'pattern': pattern, 'subject': sname, 'flags': flags, 'function': fname,
                                        'expected': f'<= {bnd:.2f} s', 'observed': 'killed after %.0f s of silence' % KILL_S if 'killed' in last else repr(last)})
        else:
            total.count('timing_noise_not_confirmed')
    total.bag = set()
    total.sample({'pattern': pats[len(pats) // 2], 'subject': 'a30b', 'flags': 'ims', 'function': 'match_all'})
    total.sample({'pattern': pats[-1], 'subject': 'a100000', 'flags': '', 'function': 'match'})
    n = total.n
    cov = {
        'states': n.get('patterns', 0),
        'transitions': n.get('calls', 0),
        'traces_validated_against_impl': n.get('calls', 0),
        'evaluations': n.get('calls', 0),
        'distinct_nontrivial': len(total.outcomes),
        'rule': '%d patterns from the regex-tree grammar (%d atoms x %d quantifiers nested to %d levels x %d suffixes x %d prefixes, plus '
                'sequences / alternations of two, two-group and fuzzy forms) x %d subjects x %d flag strings x 3 builtins, each pattern '
                'also compiled alone. distinct_nontrivial = distinct (builtin, outcome class, number of engine calls).'
                % (len(pats), b['ATOMS'], b['QUANTS'], b['LEVELS'], len(SUFFIXES), len(PREFIXES), b['SUBJECTS'], len(b['FLAGS']))
                + ' Also %d adversarial flag strings x 3 builtins and %d programs with several regex calls in one evaluation.' % (len(ODD_FLAGS), len(PROGRAMS)),
        'exhaustive': not ABORT.value,
        'aborted_after_violation': bool(ABORT.value),
        'bounds': b,
        'over_bound_confirmed': confirmed,
    }
    return runner.finish(ID, tier, seed, total, cov, [
        'oracle 1 (timeouts seen through the seam) is deterministic; oracle 2 reads a clock: bound 1.05 s + 10 us/char, confirmation '
        'runs, so a slowdown below about one second is not reported',
        'the third-party regex engine honours its timeout argument',
    ], t0)


def replay(w):
    job = (w['pattern'], w['subject'], w['flags'], w['function'])
    summ = supervised([job])[0]
    return f'{job!r}\n -> {summ!r}\n expected {w["expected"]}'
