"""C14 - lists and dicts behave like their models under any operation sequence.

Explicit-state BFS (E3).  A state is the contents of one container (list: tuple of values,
dict: insertion-ordered tuple of (key, value)); every operation of the alphabet is executed,
through real eval on a fresh host container with those contents, and on the reference model
(mc/model/containers.py); observable result and resulting contents must agree.  The search
runs to a fixpoint of the finite domain (lengths <= MAXLEN, values in {0,1,2}); transitions
leaving the domain are counted as domain exits and not taken.
Each transition is run twice: with the language's own numbers as contents and with host ints.
"""
import collections
from fractions import Fraction
import decimal

from ..core import runner, snapshot
from ..model.containers import ListModel, DictModel, key_text

ID = 'C14'

BOUNDS = {
    'quick': dict(MAXLEN=4, MAXD=3, DEPTH=12, NESTED=3),
    'thorough': dict(MAXLEN=5, MAXD=4, DEPTH=20, NESTED=5),
}

F = Fraction
# source text -> model value
INDICES = {'0': 0, '1': 1, '2': 2, '3': 3, '4': 4, '5': 5, '-1': -1, '-2': -2, '-3': -3, '-4': -4, '-5': -5, '-6': -6,
           '1.5': F(3, 2), '-1.5': F(-3, 2), '-0.5': F(-1, 2), '0.9': F(9, 10), '3.9': F(39, 10), '-3.5': F(-7, 2),
           'True': True, 'False': False, 'hi': 2, 'hn': -1, '1.0': 1, '-2.0': -2}
VALUES = {'0': 0, '1': 1, 'None': None}
SLICES = [(a, b) for a in (None, '0', '1', '-1', '1.5', '-2') for b in (None, '0', '2', '-1', '-1.5', '5')]
KEYS = {'"a"': 'a', '"1"': '1', '1': ('num', '1'), '1.0': ('num', '1.0'), 'True': True, 'None': None,
        'hk': 1, 'hs': 'a', '"True"': 'True', '"None"': 'None', '"1.0"': '1.0', '"\u0439"': '\u0439', '"\u0438\u0306"': '\u0438\u0306'}
STRKEYS = {'"\u0439"': '\u0439', '"\u0438\u0306"': '\u0438\u0306', '"a"': 'a', '"1"': '1', '"1.0"': '1.0', '"True"': 'True', '"None"': 'None', 'hs': 'a', '"zz"': 'zz'}


def list_ops():
    ops = []
    for v in VALUES:
        ops.append(('push', v))
        ops.append(('remove', v))
        ops.append(('index_of', v))
        ops.append(('in', v))
    ops.append(('pop',))
    ops.append(('len',))
    ops.append(('remove', '2'))
    ops.append(('index_of', '2'))
    for i in INDICES:
        ops.append(('popi', i))
        ops.append(('read', i))
        ops.append(('del', i))
        ops.append(('cwrite', i, '+=', '1'))
        ops.append(('cwrite', i, '-=', '1'))
        for v in VALUES:
            ops.append(('insert', i, v))
            ops.append(('write', i, v))
    for a, b in SLICES:
        ops.append(('slice', a, b))
    for st in ('2', '-1', '0', '1.5'):
        ops.append(('slice3', None, None, st))
        ops.append(('slice3', '1', None, st))
    return ops


UNICODE_KEYS = ['"\u0439"', '"\u0438\u0306"', '"a"']      # composed / decomposed spelling of one letter: two different keys


def dict_ops(kind='dict'):
    ops = [('keys',), ('values',), ('items',), ('len',)]
    KEYS_ = [k for k in KEYS if (k in UNICODE_KEYS) == (kind == 'dictu') or (kind == 'dictu' and k == '"a"')]
    STRKEYS_ = [k for k in STRKEYS if (k in UNICODE_KEYS) == (kind == 'dictu') or (kind == 'dictu' and k == '"a"')]
    return _dict_ops(KEYS_, STRKEYS_)


def _dict_ops(KEYS, STRKEYS):
    ops = [('keys',), ('values',), ('items',), ('len',)]
    for k in KEYS:
        ops.append(('read', k))
        ops.append(('del', k))
        ops.append(('get', k))
        ops.append(('getd', k))
        ops.append(('cwrite', k, '+=', '1'))
        ops.append(('cwrite', k, '-=', '1'))
        for v in VALUES:
            ops.append(('write', k, v))
            ops.append(('lit', k, v))
        for k2 in KEYS:
            ops.append(('lit2', k, k2))
    for k in STRKEYS:
        ops.append(('in', k))
        ops.append(('remove', k))
    return ops


def op_text(kind, op):
    o = op[0]
    if o == 'push':
        return f'push(c, {op[1]})'
    if o == 'pop':
        return 'pop(c)'
    if o == 'popi':
        return f'c.pop({op[1]})'
    if o == 'insert':
        return f'insert(c, {op[1]}, {op[2]})'
    if o == 'remove':
        return f'c | remove({op[1]})'
    if o == 'read':
        return f'c[{op[1]}]'
    if o == 'write':
        return f'c[{op[1]}] = {op[2]}'
    if o == 'cwrite':
        return f'c[{op[1]}] {op[2]} {op[3]}'
    if o == 'del':
        return f'del c[{op[1]}]'
    if o == 'index_of':
        return f'index_of(c, {op[1]})'
    if o == 'len':
        return 'len(c)'
    if o == 'in':
        return f'{op[1]} in c'
    if o == 'slice':
        return f'c[{op[1] or ""}:{op[2] or ""}]'
    if o == 'slice3':
        # the grammar has ::e and e:: only - steps can be written as [::e]
        if op[1] is None:
            return f'c[::{op[3]}]'
        return f'c[{op[1]}:][::{op[3]}]'
    if o == 'get':
        return f'get(c, {op[1]})'
    if o == 'getd':
        return f'c.get({op[1]}, 7)'
    if o == 'keys':
        return 'keys(c)'
    if o == 'values':
        return 'c | values'
    if o == 'items':
        return 'items(c)'
    if o == 'lit':
        return 'c = {%s: %s}' % (op[1], op[2])
    if o == 'lit2':
        return 'c = {%s: 0, %s: 1}' % (op[1], op[2])
    raise ValueError(op)


def apply_model(kind, state, op):
    """-> (result, new_state)"""
    o = op[0]
    if kind == 'list':
        m = ListModel(state)
        if o == 'push':
            r = m.push(VALUES[op[1]])
        elif o == 'pop':
            r = m.pop()
        elif o == 'popi':
            r = m.popi(INDICES[op[1]])
        elif o == 'insert':
            r = m.insert(INDICES[op[1]], VALUES[op[2]])
        elif o == 'remove':
            r = m.remove(_val(op[1]))
        elif o == 'read':
            r = m.read(INDICES[op[1]])
        elif o == 'write':
            r = m.write(INDICES[op[1]], VALUES[op[2]])
        elif o == 'cwrite':
            r = m.cwrite(INDICES[op[1]], op[2], int(op[3]))
        elif o == 'del':
            r = m.delete(INDICES[op[1]])
        elif o == 'index_of':
            r = m.index_of(_val(op[1]))
        elif o == 'len':
            r = m.length()
        elif o == 'in':
            r = m.contains(_val(op[1]))
        elif o == 'slice':
            r = m.slice(_ix(op[1]), _ix(op[2]))
        elif o == 'slice3':
            if op[1] is None:
                r = m.slice(None, None, _ix(op[3]))
            else:
                r1 = m.slice(_ix(op[1]), None)
                r = ListModel(r1[1]).slice(None, None, _ix(op[3]))
        else:
            raise ValueError(op)
        return r, m.snapshot()
    m = DictModel(state)
    if o == 'read':
        r = m.read(KEYS[op[1]])
    elif o == 'del':
        r = m.delete(KEYS[op[1]])
    elif o == 'get':
        r = m.get(KEYS[op[1]])
    elif o == 'getd':
        r = m.get(KEYS[op[1]], 7)
    elif o == 'cwrite':
        r = m.cwrite(KEYS[op[1]], op[2], int(op[3]))
    elif o == 'write':
        r = m.write(KEYS[op[1]], VALUES[op[2]])
    elif o == 'lit':
        m = DictModel([])
        m.write(KEYS[op[1]], VALUES[op[2]])
        r = ('val', None)
    elif o == 'lit2':
        m = DictModel([])
        m.write(KEYS[op[1]], 0)
        m.write(KEYS[op[2]], 1)
        r = ('val', None)
    elif o == 'keys':
        r = m.keys()
    elif o == 'values':
        r = m.values()
    elif o == 'items':
        r = m.items()
    elif o == 'len':
        r = m.length()
    elif o == 'in':
        r = m.contains_str(STRKEYS[op[1]])
    elif o == 'remove':
        r = m.remove_str(STRKEYS[op[1]])
    else:
        raise ValueError(op)
    return r, m.snapshot()


def _val(t):
    return VALUES[t] if t in VALUES else int(t)


def _ix(t):
    if t is None:
        return None
    return INDICES[t] if t in INDICES else F(t)


def canon(v):
    if v is None:
        return None
    if isinstance(v, bool):
        return ('b', v)
    if isinstance(v, (int, decimal.Decimal, float, Fraction)):
        return ('n', str(Fraction(v)))
    if isinstance(v, str):
        return v
    if isinstance(v, list):
        return [canon(x) for x in v]
    if isinstance(v, tuple):
        return ('t', [canon(x) for x in v])
    if isinstance(v, dict):
        return ('d', [(k, canon(x)) for k, x in v.items()])
    return ('?', type(v).__name__)


_parser = None


def reset():
    global _parser
    _parser = None


runner.TASK_INIT.append(reset)


def get_parser():
    global _parser
    if _parser is None:
        _parser = snapshot.api().new_parser()
    return _parser


def real_container(kind, state, flavour):
    api = snapshot.api()
    mk = (lambda x: None if x is None else api.Decimal(x)) if flavour in ('dec', 'sub') else (lambda x: x)
    if flavour == 'sub':
        # the host may bind any list / dict, including instances of subclasses (OrderedDict, an application's own record type)
        return HostList(mk(x) for x in state) if kind == 'list' else HostDict((k, mk(v)) for k, v in state)
    if kind == 'list':
        return [mk(x) for x in state]
    return {k: mk(v) for k, v in state}


class HostList(list):
    pass


class HostDict(collections.OrderedDict):
    pass


def in_domain(kind, st, b):
    def okv(x):
        return x is None or 0 <= x <= 2
    if kind == 'list':
        return len(st) <= b['MAXLEN'] and all(okv(x) for x in st) and sum(x is None for x in st) <= 1
    return len(st) <= b['MAXD'] and all(okv(v) for _, v in st) and sum(v is None for _, v in st) <= 1


def step(res, kind, state, op, b):
    """Execute one transition on model and real; returns model successor (or None)."""
    api = snapshot.api()
    text = op_text(kind, op)
    (mr, mstate) = apply_model(kind, state, op)
    for flavour in ('dec', 'int', 'sub'):
        c = real_container(kind, state, flavour)
        names = {'c': c, 'hi': 2, 'hn': -1, 'hk': 1, 'hs': 'a'}
        res.count('transitions')
        try:
            val = get_parser().eval(text, names)
            out = ('val', canon(val))
        except api.ParserError:
            out = ('PE',)
        except Exception as e:  # noqa
            out = ('EX', type(e).__name__)
        after = names['c']
        rstate = canon(after)
        want_state = canon(list(mstate)) if kind == 'list' else ('d', [(k, canon(v)) for k, v in mstate])
        ok = True
        if mr[0] == 'val' and op[0] in ('write', 'cwrite'):
            ok = out[0] == 'val'        # what an index assignment statement evaluates to is C07's business
        elif mr[0] == 'val':
            ok = out == ('val', canon(mr[1]))
        elif mr[0] == 'err':
            ok = out[0] == 'PE' if mr[1] else out[0] in ('PE', 'EX')
        # 'any': result unspecified
        if not ok:
            res.violation(f'{kind}:{op[0]}:result:{_argclass(kind, op)}', f'{kind} operation gives a different result than the model',
                          {'kind': kind, 'contents': list(state), 'flavour': flavour, 'op': list(op), 'program': text,
                           'expected': 'ParserError' if mr[0] == 'err' and mr[1] else ('an error' if mr[0] == 'err' else repr(canon(mr[1]))),
                           'observed': repr(out)})
        if rstate != want_state:
            res.violation(f'{kind}:{op[0]}:contents:{_argclass(kind, op)}', f'{kind} holds different contents than the model after the operation',
                          {'kind': kind, 'contents': list(state), 'flavour': flavour, 'op': list(op), 'program': text,
                           'expected': repr(want_state), 'observed': repr(rstate)})
        res.outcome(f'{kind}:{op[0]}:{out[0]}:{mr[0]}')
    return mstate


def _argclass(kind, op):
    if len(op) < 2 or op[1] is None:
        return ''
    a = op[1]
    if kind == 'list' and a in INDICES:
        v = INDICES[a]
        if isinstance(v, bool):
            return 'bool'
        if isinstance(v, Fraction):
            return 'neg-frac' if v < 0 else 'frac'
        return 'neg' if v < 0 else 'nonneg'
    if kind in ('dict', 'dictu') and a in KEYS:
        v = KEYS[a]
        return type(v).__name__ if not isinstance(v, tuple) else 'num'
    return ''


# ---- nested values: what was stored under an index/key is what is read back, whatever is done to the source afterwards
def _m_store(env, cont, key, src):
    import copy
    env[cont][key] = copy.deepcopy(src(env))


def _m_iadd(cont, key, v):
    cur = cont[key]
    if not isinstance(cur, list):
        raise TypeError('not a list')       # number += list: an error in any reading
    cur += v                                  # in place: every other holder of the list sees the new items


NESTED_OPS = [
    # (program, model action on env {c, d, s, g})
    ('c[0] = s', lambda e: _m_store(e, 'c', 0, lambda e: e['s'])),
    ('c[1.9] = g', lambda e: _m_store(e, 'c', 1, lambda e: e['g'])),
    ('d["k"] = s', lambda e: _m_store(e, 'd', 'k', lambda e: e['s'])),
    ('d[1] = g', lambda e: _m_store(e, 'd', '1', lambda e: e['g'])),
    ('c[-1] = s[0]', lambda e: _m_store(e, 'c', -1, lambda e: e['s'][0])),
    ('d["k"] = g["a"]', lambda e: _m_store(e, 'd', 'k', lambda e: e['g']['a'])),
    ('d["m"] = c', lambda e: _m_store(e, 'd', 'm', lambda e: e['c'])),
    ('s[0][0] = 9', lambda e: e['s'][0].__setitem__(0, 9)),
    ('push(s[1], 5)', lambda e: e['s'][1].append(5)),
    ('g["a"]["c"] = 7', lambda e: e['g']['a'].__setitem__('c', 7)),
    ('push(g["a"]["b"], 2)', lambda e: e['g']['a']['b'].append(2)),
    ('pop(s[0])', lambda e: e['s'][0].pop()),
    ('del g["a"]["b"]', lambda e: e['g']['a'].pop('b', None)),   # del of a missing key: silent (left open by the statement, see model)
    ('c[0][0][0] = 8', lambda e: e['c'][0][0].__setitem__(0, 8)),
    ('push(d["k"], 6)', lambda e: e['d']['k'].append(6)),
    ('push(c[0], 3)', lambda e: e['c'][0].append(3)),
    # push / insert store the object itself: one list reachable through two paths, extended in place by a compound write
    ('push(c, s[0])', lambda e: e['c'].append(e['s'][0])),
    ('c[-1] += [2]', lambda e: _m_iadd(e['c'], -1, [2])),
    ('s[0] += [5]', lambda e: _m_iadd(e['s'], 0, [5])),
    ('d["k"] += [3]', lambda e: _m_iadd(e['d'], 'k', [3])),
]


def nested_env(api):
    D = api.Decimal if api else (lambda x: x)
    return {'c': [D(0), D(0)], 'd': {}, 's': [[D(1)], [D(2)]], 'g': {'a': {'b': [D(1)]}}}


def nested_sequences(res, first, depth):
    import itertools
    for tail in itertools.product(range(len(NESTED_OPS)), repeat=depth - 1):
        run_nested(res, (first,) + tail)


def run_nested(res, seq):
    api = snapshot.api()
    if True:
        menv = nested_env(None)
        renv = nested_env(api)
        res.count('nested_sequences')
        for n, i in enumerate(seq):
            text, act = NESTED_OPS[i]
            import copy
            before = copy.deepcopy(menv)
            try:
                act(menv)
                merr = False
            except Exception:  # noqa
                menv = before
                merr = True
            res.count('transitions')
            try:
                get_parser().eval(text, renv)
                rerr = False
            except Exception:  # noqa
                rerr = True
            if merr != rerr or canon(renv) != canon(menv):
                progs = [NESTED_OPS[j][0] for j in seq[:n + 1]]
                res.violation(f'nested:{NESTED_OPS[i][0]}:after:{NESTED_OPS[seq[n - 1]][0] if n else ""}',
                              'containers hold different contents than the model after a sequence storing nested values',
                              {'kind': 'nested', 'history': progs, 'program': '; '.join(progs), 'contents': [],
                               'expected': ('error, ' if merr else '') + repr(canon(menv)), 'observed': ('error, ' if rerr else '') + repr(canon(renv))})
                break
        res.outcome('nested:%s' % ('err' if merr else 'ok'))


def work(task):
    if task[0] == 'nested':
        res = runner.Result()
        nested_sequences(res, task[1], task[2])
        return res
    kind, states, b = task
    res = runner.Result()
    ops = list_ops() if kind == 'list' else dict_ops(kind)
    for st in states:
        for op in ops:
            nxt = step(res, kind, st, op, b)
            if in_domain(kind, nxt, b):
                res.bag.add((kind, nxt))
            else:
                res.count('domain_exits')
    return res


def main(tier, seed, t0):
    b = BOUNDS[tier]
    snapshot.api()
    total = runner.Result()
    seen = {('list', ()), ('dict', ()), ('dictu', ())}
    frontier = sorted(seen, key=repr)
    depth = 0
    fix = False
    sample_done = False
    while frontier and depth < b['DEPTH']:
        depth += 1
        tasks = []
        for kind in ('list', 'dict', 'dictu'):
            sts = [s for k, s in frontier if k == kind]
            n = max(1, len(sts) // 32 + 1)
            tasks += [(kind, sts[i:i + n], b) for i in range(0, len(sts), n)]
        tasks = runner.rotate(tasks, seed)
        r = runner.run_tasks(work, tasks, selftest=(depth <= 2))
        new = sorted((x for x in r.bag if x not in seen), key=repr)
        r.bag = set()
        total.merge(r)
        seen.update(new)
        frontier = new
        if not sample_done and depth == 3 and new:
            total.sample({'kind': new[0][0], 'contents': list(new[0][1]), 'depth': depth,
                          'example_op': op_text(new[0][0], (list_ops() if new[0][0] == 'list' else dict_ops())[5])})
            sample_done = True
    fix = not frontier
    for dpt in range(1, b['NESTED'] + 1):
        tasks = runner.rotate([('nested', i, dpt) for i in range(len(NESTED_OPS))], seed)
        total.merge(runner.run_tasks(work, tasks, selftest=False))
    n = total.n
    cov = {
        'states': len(seen),
        'transitions': n.get('transitions', 0),
        'traces_validated_against_impl': n.get('transitions', 0),
        'evaluations': n.get('transitions', 0),
        'distinct_nontrivial': len(total.outcomes),
        'rule': 'BFS over container contents: lists up to length %d and dicts up to %d entries with values in {0,1,2}; %d list '
                'operations and %d dict operations (indices: integers -6..5, decimals, bools, host ints; keys: strings, numbers, '
                'bools, None, host values; dict literals as transitions), each executed through eval on language numbers and on '
                'host ints. distinct_nontrivial = distinct (operation, real outcome class, model outcome class).'
                'Plus every sequence of up to %d of %d operations that store nested list/dict values under an index or key, mutate '
                'the source or the stored value, compared with a deep-copy-on-store model after every step (%d sequences).'
                % (b['MAXLEN'], b['MAXD'], len(list_ops()), len(dict_ops()), b['NESTED'], len(NESTED_OPS), n.get('nested_sequences', 0)),
        'exhaustive': fix,
        'frontier_exhausted': fix,
        'max_depth': depth,
        'bounds': b,
    }
    return runner.finish(ID, tier, seed, total, cov, [
        'a container has no state beyond its (ordered) contents, so a state can be rebuilt from its canonical contents',
        'not compared because the statement leaves it open: class of the error for out-of-range write/del/pop(i), whether del of a '
        'missing index/key is silent',
    ], t0)


def replay(w):
    res = runner.Result()
    kind = w['kind']
    if kind == 'nested':
        run_nested(res, tuple([t for t, _ in NESTED_OPS].index(x) for x in w['history']))
        return ('REPRODUCED' if res.viol else 'HOLDS') + f"\n {w['program']!r}\n " + repr({k: v[1][:1] for k, v in res.viol.items()})
    st = tuple(w['contents']) if kind == 'list' else tuple(tuple(x) for x in w['contents'])
    step(res, kind, st, tuple(w['op']), BOUNDS['thorough'])
    return ('REPRODUCED' if res.viol else 'HOLDS') + f"\n {w['program']!r} on {w['contents']!r}\n " + \
        repr({k: v[1][:1] for k, v in res.viol.items()})
