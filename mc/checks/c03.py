"""C03 - the 10000-element cap on lists and dicts cannot be circumvented.

BFS (E3) over histories of growth-relevant statements - every operator form and every builtin
found in FUNCTIONS at run time that returns or mutates a list, dict or string (discovered by a
dry run) - starting from host containers l, d and a host string s of each length in
{0, 1, 9998, 9999, 10000, 10001}.  Histories are replayed on fresh host objects; states are
deduplicated on the (type, length) tree of everything reachable from names.
Invariant (external tracer on every node evaluation + walk of names/result after each eval):
  every list / dict has length <= max(10000, longest host-supplied or literal list/dict/string).
Step oracle: push, insert, c[k] = v, c[k] op= v on a container that holds >= 10000 elements
raise ParserError and leave the container unchanged.
"""
from ..core import runner, snapshot, opwrap, watchdog

ID = 'C03'
CAP = 10000
LENGTHS = [0, 1, 9998, 9999, 10000, 10001]
STR_DOMAIN = 400000

BOUNDS = {
    'quick': dict(DEPTH=2, DEEP_LENGTHS=[0, 9999, 10000, 10001], DEEP_OPS='fixed operator/compound/index forms only'),
    'thorough': dict(DEPTH=3, DEEP_LENGTHS=[0, 9999, 10000, 10001], DEEP_OPS='fixed operator/compound/index forms only', ALL_OPS_DEPTH=2),
}

FIXED_OPS = [
    'x = l + l', 'l += l', 'x = l + [1]', 'l += [1]', 'l += "ab"', 'l += d', 'l += t', 'x = s + s', 's += s', 's += "a"',
    'push(l, 1)', 'insert(l, 0, 1)', 'l[0] = 1', 'l[-1] = 1', 'd["new"] = 1', 'd["0"] = 1', 'd[0] = 1', 'd[True] = 1',
    'l[0] += 1', 'd["0"] += 1', 'd["new"] += 1', 'l *= 2', 'x = l * 2', 's *= 2', 'x = s * 2', 'x = [l] * 2',
    'x = [l, l]', 'x = {"a": l}', 'x = l', 'x = d', 'x = s', 'y = x', 'x += x', 'x = x + x', 'x += l', 'x = x + l',
    'c = [l]; c[0] += l', 'c = {"k": l}; c["k"] += l', 'c = [l]; c[0] += "ab"', 'c = [[1]]; c[0] += l', 'c = [l]; c[0] *= 2',
    'x = keys(d) + values(d)', 'x = items(d) + items(d)', 'x = reversed(l) + l', 'x = reduce([l, l], (a, b) => a + b)',
    'x = l[0:5000] + l[5000:]', 'x = l[:] + [1]', 'x = map(l, v => 1) + map(l, v => 2)', 'x = split(s, "a") + [1]',
    'push(x, 1)', 'insert(x, 0, 1)', 'x[0] = 1', 'x["new"] = 1', 'x[0] += 1',
    'x = dict(d)', 'x = dict(items(d))', 'x = sorted(d)', 'x = list(l, l, l)', 'x = enumerate(l) + enumerate(l)',
    'x = replace(s, "a", "aa")', 'x = join(l, "")', 'x = str(l)', 'x = pretty(l)', 'x = pretty(d)', 'x = upper(s) + lower(s)',
    'x = split(s, "a")', 'x = split(s, "")', 'x = split(s)', 'x = match_all(s, "")', 'x = match_all(s, "a")', 'x = match_all(s, "a?")',
    'x = map(s, c => c)', 'x = enumerate(s)', 'x = sorted(s)', 'x = reversed(s)', 'x = filter(map(s, c => c), c => True)',
    'x = split(x, "a")', 'x = map(x, c => c)', 'x = enumerate(x)', 'x = sorted(x)', 'x = match_all(x, "")', 'x = match_all(x, "a")',
    'x = replace(x, "a", "aa")', 'x = x + "a"', 'x = keys(x)', 'x = items(x)', 'x = values(x)', 'x = reversed(x)',
    'del l[0]', 'pop(l)', 'pop(x)', 'remove(d, "0")', 'del d["0"]',
    'e = []; e += s; x = e', 'e = []; e += x; x = e', 'e = []; e += l; x = e', 'e = []; e = e + l + l; x = e', 'e = [1]; e += s; x = e',
    'e = []; e += tt; x = e', 'x = tt + tt', 'x = reversed(tt + tt)', 'x = sorted(tt + tt)', 'x = enumerate(tt + tt)', 'x = map(tt + tt, v => v)',
    'x = tt + tt; x = reversed(x)', 'y = tt; y += tt; x = sorted(y)', 'x = items(d)[0] + tt + tt; x = reversed(x)', 'x = [tt + tt]; x = reversed(x[0])',
    'x = x + x; x = reversed(x)', 'x = filter(map(tt + tt, v => v), v => True)',
]
SPECULATIVE_OPS = [
    # the right-hand side itself grows the target
    'l += [push(l, 1)]', 'l += [l.push(0), l.push(0)]', 'x = l; x += [x.push(0)]', 'push(l, push(l, 1))', 'insert(l, 0, push(l, 1))', 'l[0] = push(l, 1)',
    'd["new"] = __setitem__(d, "n2", 1)', 'c = [l]; c[0] += [push(c[0], 1)]',
    # forms the grammar does not have today (syntax errors, harmless): if a change introduces one of them it is explored like the rest
    'l[0:0] = l', 'l[1:2] = l', 'l[:] = l + l', 'x = l; x[0:0] = l', 'l[0:0] += l', 'l **= 2', 'l @= l', 'extend(l, l)', 'l.extend(l)', 'append(l, 1)',
    'l.append(1)', 'x = concat(l, l)', 'update(d, d2)', 'd.update(d2)', 'x = merge(d, d2)', 'x = repeat(l, 3)', 'x = range(20000)', 'x = [*l, *l]',
    'x = {**d, **d2}', 'x = l ++ l', 'x = [v for v in l + l]', 'x = l << l', 'x = flatten([l, l])', 'x = zip(l, l) + zip(l, l)', 'x = chars(s + s)',
    'x = copy(l) + copy(l)', 'x = slice(l + l, 0)', 'd |= d2', 'x = d | d2' if False else 'x = l * l',
]
ARG_TEMPLATES = ['(l)', '(d)', '(s)', '(l, l)', '(s, "a")', '(s, "")', '(l, v => v)', '(l, v => l)', '(d, (k, v) => l)',
                 '(l, (a, b) => a)', '(s, c => c)', '(l, 1)', '(l, 0, 1)', '(d, "0")', '(d, "new", l)', '(l, "")', '(s, "a", "aa")',
                 '(x)', '(x, "a")', '(x, v => v)',
                 # containers of containers: anything that folds / flattens / joins its elements
                 '(d, d2)', '(d2, d, d)', '([d, d2])',
                 '([l, l])', '([s, s])', '([tt, tt])', '([l, l], (a, b) => a + b)', '([[l, l], l])']
AT_CAP_MUTATIONS = {'push(l, 1)': 'l', 'insert(l, 0, 1)': 'l', 'l[0] = 1': 'l', 'l[-1] = 1': 'l', 'l[0] += 1': 'l',
                    'd["new"] = 1': 'd', 'd["0"] = 1': 'd', 'd[0] = 1': 'd', 'd[True] = 1': 'd', 'd["0"] += 1': 'd', 'd["new"] += 1': 'd'}


def fresh(n):
    return {'l': [0] * n, 'd': {str(i): 0 for i in range(n)}, 's': 'a' * n, 't': (1, 2), 'tt': (0,) * n,
            'd2': {'k%d' % i: 0 for i in range(n)}}


_parser = [None]


def _reset():
    _parser[0] = None


runner.TASK_INIT.append(_reset)


def parser():
    if _parser[0] is None:
        _parser[0] = snapshot.api().new_parser()
    return _parser[0]


def discover_ops():
    """Fixed operator forms + every (builtin, argument template) that yields or mutates a container/string
    in a dry run on small host objects."""
    api = snapshot.api()
    ops = list(FIXED_OPS) + SPECULATIVE_OPS
    for f in sorted(api.FUNCTIONS):
        if f.startswith('__') or f in ('rand', 'shuffle'):
            continue
        for tpl in ARG_TEMPLATES:
            text = f'x = {f}{tpl}'
            names = fresh(3)
            names['x'] = 'aaa' if tpl.startswith('(x, "a")') else [0, 0, 0]
            before = repr(sorted((k, repr(v)) for k, v in names.items()))
            try:
                parser().eval(text, names, max_ops_evaluated=1000)
            except Exception:  # noqa
                continue
            after = repr(sorted((k, repr(v)) for k, v in names.items()))
            xv = names.get('x')
            if isinstance(xv, (list, dict, str, tuple)) or before != after:
                if text not in ops:
                    ops.append(text)
    return ops


class Inv:
    """Tracer: length invariant on every node evaluation result."""

    def __init__(self, res, bound, history):
        self.res = res
        self.bound = bound
        self.history = history
        self.hit = False

    def enter(self, node, state):
        pass

    def leave(self, node, value):
        if isinstance(value, (list, dict)) and len(value) > self.bound and not self.hit:
            self.hit = True
            site = _site(node)
            self.res.violation(f'exceeds:{site}', f'a {type(value).__name__} of {len(value)} elements was produced (cap 10000, longest '
                               f'host/literal container or string in this run: {self.bound})',
                               {'history': self.history, 'site': site, 'expected': f'length <= {self.bound}',
                                'observed': f'{type(value).__name__} of length {len(value)}'})

    def fail(self, node, exc):
        pass


def _site(node):
    cn = type(node).__name__
    if cn == 'CallOp':
        a = ''
        if node.args:
            a0 = node.args[0]
            a = ':' + (getattr(a0, 'name', None) or type(a0).__name__)
        return f'call:{node.name}{a}'
    if cn in ('BinOp', 'ShortOp'):
        return f'{cn}:{node.op}'
    return cn


def shape(v, depth=0):
    if isinstance(v, (list, tuple)):
        kids = set()
        if depth < 2:
            for e in v[:3] + v[-1:] if isinstance(v, list) else v:
                if isinstance(e, (list, dict, tuple, str)):
                    kids.add(shape(e, depth + 1))
        return (type(v).__name__, len(v), tuple(sorted(kids)))
    if isinstance(v, dict):
        kids = set()
        if depth < 2:
            for e in list(v.values())[:3]:
                if isinstance(e, (list, dict, tuple, str)):
                    kids.add(shape(e, depth + 1))
        return ('dict', len(v), tuple(sorted(kids)))
    if isinstance(v, str):
        return ('str', len(v))
    return ('scalar',)


def _weight(v):
    """Logical size counting shared sub-containers each time (what str()/deepcopy would have to produce)."""
    if isinstance(v, (list, tuple)):
        if not v:
            return 0
        heavy = [e for e in (v[:2] + v[-1:] if isinstance(v, list) else v) if isinstance(e, (list, dict, tuple, str))]
        if heavy:
            return len(v) * max(1, max(len(e) for e in heavy))
        return len(v)
    if isinstance(v, dict):
        heavy = [e for e in list(v.values())[:3] if isinstance(e, (list, dict, tuple, str))]
        if heavy:
            return len(v) * max(1, max(len(e) for e in heavy))
        return len(v)
    return 0


def walk_lengths(v, bound, found, depth=0):
    """Over-long lists/dicts reachable from v. Long containers are sampled at both ends and in the
    middle (contents are uniform by construction; operations insert at the ends)."""
    if isinstance(v, (list, dict)):
        if len(v) > bound:
            found.append((type(v).__name__, len(v)))
        if depth < 3:
            if isinstance(v, dict):
                vals = list(v.values()) if len(v) <= 64 else list(v.values())[:4] + list(v.values())[-4:]
            else:
                vals = v if len(v) <= 64 else v[:4] + v[len(v) // 2:len(v) // 2 + 2] + v[-4:]
            for e in vals:
                if isinstance(e, (list, dict, tuple)):
                    walk_lengths(e, bound, found, depth + 1)
    elif isinstance(v, tuple) and depth < 3:
        for e in (v if len(v) <= 64 else v[:4] + v[-4:]):
            walk_lengths(e, bound, found, depth + 1)


def run_history(res, n, history):
    """Replay on fresh host objects of length n. Returns (canonical state, ok, in_domain)."""
    api = snapshot.api()
    names = fresh(n)
    bound = max(CAP, n)
    ok = True
    for i, prog in enumerate(history):
        last = (i == len(history) - 1)
        inv = Inv(res, bound, history) if last else None
        target = AT_CAP_MUTATIONS.get(prog) if last else None
        before_len = len(names[target]) if target else None
        before_probe = None
        if target and before_len >= CAP:
            c = names[target]
            before_probe = (len(c), c[0] if isinstance(c, list) else c.get('0'), c[-1] if isinstance(c, list) else None,
                            list(c.keys())[-1] if isinstance(c, dict) and c else None)
        exc = None
        result = None
        try:
            with watchdog.limit(4.0):
                if inv is not None:
                    with opwrap.traced(inv):
                        result = parser().eval(prog, names, max_ops_evaluated=200000)
                else:
                    parser().eval(prog, names, max_ops_evaluated=200000)
            ok = True
        except watchdog.WatchdogTimeout:
            res.count('slow_statements_cut_at_4s')
            res.notes.setdefault('slow', []).append(prog) if len(res.notes.get('slow', [])) < 5 else None
            return None, False, False
        except Exception as e:  # noqa
            exc = e
            ok = False
        res.count('evals')
        if last:
            found = []
            for k, v in names.items():
                walk_lengths(v, bound, found)
            walk_lengths(result, bound, found)
            if found and not inv.hit:
                res.violation(f'exceeds:reachable:{_opkind(prog)}', 'a container longer than the cap is reachable from names / the result after eval',
                              {'history': history, 'start_length': n, 'expected': f'length <= {bound}', 'observed': repr(found[:3])})
            if before_probe is not None:
                c = names[target]
                after_probe = (len(c), c[0] if isinstance(c, list) else c.get('0'), c[-1] if isinstance(c, list) else None,
                               list(c.keys())[-1] if isinstance(c, dict) and c else None)
                res.count('at_cap_mutations')
                if not isinstance(exc, api.ParserError):
                    res.violation(f'at-cap:no-error:{_opkind(prog)}', 'an element-adding operation on a full container did not raise ParserError',
                                  {'history': history, 'start_length': n, 'expected': 'ParserError',
                                   'observed': 'no exception' if exc is None else repr(exc)})
                if after_probe != before_probe:
                    res.violation(f'at-cap:changed:{_opkind(prog)}', 'a failed element-adding operation changed the full container',
                                  {'history': history, 'start_length': n, 'expected': repr(before_probe), 'observed': repr(after_probe)})
    if res.viol and res.n.get('_viol_mark', 0) != len(res.viol):
        pass
    st = repr(sorted((k, shape(v)) for k, v in names.items() if not callable(v)))
    dom = all(not isinstance(v, str) or len(v) <= STR_DOMAIN for v in names.values()) and \
        all(_weight(v) <= 3 * CAP for v in names.values())
    return st, ok, dom


def _opkind(prog):
    return prog.replace(' ', '')[:28]


def work(task):
    n, hists, ops = task
    res = runner.Result()
    for hist in hists:
        for op in ops:
            h2 = list(hist) + [op]
            nv = sum(v[2] for v in res.viol.values())
            st, ok, dom = run_history(res, n, h2)
            if sum(v[2] for v in res.viol.values()) != nv:
                res.count('violating_states_not_extended')
                res.count('transitions')
                continue
            res.count('transitions')
            if st is None:
                continue
            res.outcome(st)
            if not dom:
                res.count('domain_exits')
            elif ok:
                res.bag.add((n, st, tuple(h2)))
    return res


def main(tier, seed, t0):
    b = BOUNDS[tier]
    snapshot.api()
    opwrap.install()
    ops = discover_ops()
    total = runner.Result()
    seen = set()
    frontier = [(n, ()) for n in LENGTHS]
    depth = 0
    while frontier and depth < b['DEPTH']:
        depth += 1
        tasks = []
        wide = depth <= b.get('ALL_OPS_DEPTH', 1)      # every discovered statement from every start length
        for n in (LENGTHS if wide else b['DEEP_LENGTHS']):
            hs = [h for m, h in frontier if m == n]
            k = max(1, len(hs) // 24 + 1)
            use = ops if (wide or b['DEEP_OPS'] == 'all') else FIXED_OPS
            tasks += [(n, hs[i:i + k], use) for i in range(0, len(hs), k)]
        tasks = runner.rotate(tasks, seed)
        r = runner.run_tasks(work, tasks, selftest=(depth == 1))
        new = []
        for n, st, hist in sorted(r.bag, key=lambda x: (x[0], x[2])):
            if (n, st) not in seen:
                seen.add((n, st))
                new.append((n, hist))
        r.bag = set()
        total.merge(r)
        frontier = new
        if depth == 2 and new:
            total.sample({'start_length': new[len(new) // 2][0], 'history': list(new[len(new) // 2][1])})
    if depth < 2:
        total.sample({'start_length': 10000, 'history': ['push(l, 1)']})
    n_ = total.n
    if not n_.get('at_cap_mutations'):
        print('INTERNAL-ERROR: no at-cap mutation was exercised (vacuous)')
        return 2
    cov = {
        'states': len(seen),
        'transitions': n_.get('transitions', 0),
        'traces_validated_against_impl': n_.get('evals', 0),
        'evaluations': n_.get('evals', 0),
        'distinct_nontrivial': len(total.outcomes),
        'rule': 'BFS to depth %d over %d growth-relevant statements (%d fixed operator/compound/index forms + builtin x argument '
                'template pairs discovered by a dry run over all of FUNCTIONS) from host list/dict/string of lengths %s (beyond depth 1: see '
                'bounds); states '
                'deduplicated on the (type, length) tree reachable from names. distinct_nontrivial = distinct such states.'
                % (b['DEPTH'], len(ops), len(FIXED_OPS), LENGTHS),
        'exhaustive': True,
        'frontier_exhausted': not frontier,
        'max_depth': depth,
        'ops': len(ops),
        'bounds': b,
    }
    return runner.finish(ID, tier, seed, total, cov, [
        'uniform contents: no length-changing path depends on element values (remove/filter are driven with present and absent values)',
        'strings are not capped by the property; they count as a source of length when host-supplied',
    ], t0)


def replay(w):
    res = runner.Result()
    opwrap.install()
    hist = list(w['history'])
    out = []
    for n in ([w['start_length']] if 'start_length' in w else LENGTHS):
        run_history(res, n, hist)
    return ('REPRODUCED' if res.viol else 'HOLDS') + f"\n history={hist!r}\n " + repr({k: v[1][:1] for k, v in res.viol.items()})
