"""C08 - decimal arithmetic is exact: no binary floating-point error.

Enumerated: a literal alphabet (all d{1,2} and d{1,2}.d{1,2} over digits {0,1,3,5,9}, leading-zero
forms, 27..30-digit literals probing half-even rounding at the 28th digit); all pairs for
+ - * / and the six comparisons; all two-operator trees (both groupings, with unary minus)
over a reduced set; round / floor / ceil / abs / int / sum / min / max on literals and sums.
Oracle: mc/model/exactnum.py - Fractions, integer round-half-even to 28 significant digits.
Every task first evaluates a few *failing* arithmetic programs on the same interpreter thread
(0 ** 0, a negative base with a fractional power, an overflowing power, 1 / 0), because the
decimal context is per-thread state that arithmetic must leave unchanged.
"""
import decimal
import itertools
from fractions import Fraction
import math
import sys

from ..core import runner, snapshot
from ..model import exactnum as X

ID = 'C08'

BOUNDS = {
    'quick': dict(LITS='reduced', TRIPLES=12),
    'thorough': dict(LITS='full', TRIPLES=34),
}

DIG = '01359'
POISON = ['0 ** 0', '(0 - 8) ** 0.5', '10 ** 1000000000', '1 / 0', '"a" ** 2', '0 / 0', '2 ** 0.5 ** 100000']


def literal_alphabet(kind):
    lits = []
    for a in DIG:
        lits.append(a)
    ints = [a + b for a in DIG for b in DIG]
    fracs = [a for a in DIG] + [a + b for a in DIG for b in DIG]
    lits += ints
    if kind == 'full':
        for i in list(DIG) + ints:
            for f in fracs:
                lits.append(i + '.' + f)
    else:
        for i in ['0', '1', '3', '9', '10', '35', '99', '05']:
            for f in ['1', '5', '9', '01', '05', '35', '50', '99', '0']:
                lits.append(i + '.' + f)
    long_ = []
    for n in (26, 27, 28, 29):
        for head in ('1', '9'):
            for prev in ('2', '3'):
                for last in ('0', '4', '5', '6', '9'):
                    long_.append(head * (n - 1) + prev + last)
    long_ += ['0.' + '0' * 27 + '1', '0.' + '3' * 29 + '5', '1.' + '0' * 28 + '1', '1' + '0' * 29 + '1', '1' + '0' * 29,
              '9' * 28 + '.5', '9' * 28 + '.4', '1.' + '2345678901' * 3 + '25', '0.1', '0.2', '0.3', '2.675', '1.005', '0.15', '0.35',
              '12345678901234567.891', '1' + '0' * 27 + '.5', '12345678901234567890123456789.75', '9' * 29 + '.5', '1' + '0' * 29 + '.25',
              '1' * 4301, '9' * 5000 + '.5', '0.' + '1' * 4400, '7' + '0' * 4400,
              '10000000000000000000000000001', '0.8000000000000000000000000004', '1.809', '0.8683873806956042304114426942']
    return lits, long_


BINOPS = ['+', '-', '*', '/']
CMPS = ['==', '!=', '<', '<=', '>', '>=']

_parser = [None]


def _reset():
    _parser[0] = None


runner.TASK_INIT.append(_reset)


def parser():
    if _parser[0] is None:
        _parser[0] = snapshot.api().new_parser()
    return _parser[0]


def model_bin(op, a, b):
    if op == '+':
        return X.add(a, b)
    if op == '-':
        return X.sub(a, b)
    if op == '*':
        return X.mul(a, b)
    return X.div(a, b)


def run(text):
    # the harness computes with integers of any length; the code under test runs under the interpreter's default limit on
    # int <-> str conversion (4300 digits), as it would in a host
    sys.set_int_max_str_digits(4300)
    try:
        return ('val', parser().eval(text, {}, max_ops_evaluated=1000))
    except Exception as e:  # noqa
        return ('exc', e)
    finally:
        sys.set_int_max_str_digits(0)


def to_fraction(v):
    if isinstance(v, bool):
        return None
    if isinstance(v, (int, float, decimal.Decimal)):
        try:
            return Fraction(v)
        except (ValueError, OverflowError):
            return None
    return None


def expect_number(res, text, want, site):
    """want: Fraction | 'error' | set of Fractions (any of)."""
    out = run(text)
    res.count('evals')
    if want == 'error':
        if out[0] != 'exc':
            res.violation(f'{site}:no-error', 'an arithmetic error (division by zero) was expected',
                          {'program': text, 'expected': 'an arithmetic error', 'observed': repr(out[1])})
        return
    if out[0] == 'exc':
        res.violation(f'{site}:raises:{type(out[1]).__name__}', 'arithmetic on numbers raised',
                      {'program': text, 'expected': str(want), 'observed': repr(out[1])})
        return
    got = to_fraction(out[1])
    ok = got is not None and (got in want if isinstance(want, set) else got == want)
    if not ok:
        kind = 'float' if isinstance(out[1], float) else type(out[1]).__name__
        res.violation(f'{site}:{kind}', 'result differs from the exact decimal result rounded half-even to 28 significant digits',
                      {'program': text, 'expected': _show(want), 'observed': f'{out[1]!r} ({type(out[1]).__name__})'})
    else:
        res.outcome(str(got))


def _show(w):
    if isinstance(w, set):
        return ' or '.join(sorted(_show(x) for x in w))
    if w.denominator == 1:
        return str(w.numerator)
    return f'{w.numerator}/{w.denominator}'


def expect_bool(res, text, want, site):
    out = run(text)
    res.count('evals')
    if out[0] == 'exc' or out[1] is not want:
        res.violation(f'{site}', 'comparison disagrees with exact rational order',
                      {'program': text, 'expected': repr(want), 'observed': repr(out[1])})
    else:
        res.outcome(f'{want}')


def poison():
    for p in POISON:
        run(p)


def work(task):
    res = runner.Result()
    kind = task[0]
    sys.set_int_max_str_digits(0)
    poison()
    if kind == 'pairs':
        _, As, Bs = task
        for a in As:
            fa = X.literal(a)
            # the literal itself
            expect_number(res, a, fa, 'literal')
            expect_number(res, f'- {a}', X.neg(fa), 'neg')
            for b in Bs:
                fb = X.literal(b)
                for op in BINOPS:
                    try:
                        want = model_bin(op, fa, fb)
                    except X.NumError:
                        want = 'error'
                    expect_number(res, f'{a} {op} {b}', want, f'bin{op}')
                for op in CMPS:
                    want = {'==': fa == fb, '!=': fa != fb, '<': fa < fb, '<=': fa <= fb, '>': fa > fb, '>=': fa >= fb}[op]
                    expect_bool(res, f'{a} {op} {b}', want, f'cmp{op}')
                res.count('pairs')
        res.sample({'program': f'{As[0]} / {Bs[-1]}', 'oracle': 'Fraction arithmetic, half-even to 28 digits'})
    elif kind == 'triples':
        _, As, lits = task
        for a in As:
            for b in lits:
                for c in lits:
                    fa, fb, fc = X.literal(a), X.literal(b), X.literal(c)
                    for op1 in BINOPS:
                        for op2 in BINOPS:
                            for shape in (0, 1, 2):
                                try:
                                    if shape == 0:
                                        text = f'({a} {op1} {b}) {op2} {c}'
                                        want = model_bin(op2, model_bin(op1, fa, fb), fc)
                                    elif shape == 1:
                                        text = f'{a} {op1} ({b} {op2} {c})'
                                        want = model_bin(op1, fa, model_bin(op2, fb, fc))
                                    else:
                                        text = f'- {a} {op1} - ({b} {op2} - {c})'
                                        want = model_bin(op1, X.neg(fa), X.neg(model_bin(op2, fb, X.neg(fc))))
                                except X.NumError:
                                    want = 'error'
                                expect_number(res, text, want, f'tree{op1}{op2}')
                    # a non-literal head followed by two literal operands (re-association must not happen)
                    for op in ('+', '*'):
                        for head, fh in ((f'abs({a})', X.round_sig(abs(fa))), (f'({a} + 0)', X.add(fa, Fraction(0))), (f'max({a}, {a})', fa)):
                            try:
                                want = model_bin(op, model_bin(op, fh, fb), fc)
                            except X.NumError:
                                want = 'error'
                            expect_number(res, f'{head} {op} {b} {op} {c}', want, f'chain{op}')
                    # a comparison of two sums: 0.1 + 0.2 == 0.3 style
                    s = X.add(fa, fb)
                    expect_bool(res, f'{a} + {b} == {c}', s == fc, 'cmp-sum')
                    expect_bool(res, f'{a} + {b} < {c}', s < fc, 'cmp-sum')
                    res.count('triples')
    elif kind == 'ties':
        # double rounding: exact results that sit a hair above / below a 28-digit tie; any intermediate rounding to MORE than 28
        # digits (40, 56, 100 ...) followed by the final one lands on the tie and goes the other way
        def dec_text(fr):
            n, d = fr.numerator, fr.denominator
            k = 0
            while d != 1:
                n, d, k = n * 10, d, k + 1
                g = math.gcd(n, d)
                n, d = n // g, d // g
            t = str(n).rjust(k + 1, '0')
            return (t[:-k] + '.' + t[-k:]) if k else t
        for base in ('1.0000000000000000000000000005', '1.0000000000000000000000000015', '9999999999999999999999999999.5',
                     '0.00012345678901234567890123456785', '3.0000000000000000000000000025'):
            fb = X.literal(base)
            for K in (30, 40, 57, 60, 100, 300):
                tiny = '0.' + '0' * K + '1'
                ft = X.literal(tiny)
                progs = [(f'{base} + {tiny}', X.add(fb, ft)), (f'{tiny} + {base}', X.add(ft, fb)), (f'{base} - {tiny}', X.sub(fb, ft)),
                         (f'{base} * 1.{"0" * K}1', X.mul(fb, X.literal('1.' + '0' * K + '1'))),
                         (f'{base} * 0.{"9" * K}', X.mul(fb, X.literal('0.' + '9' * K))),
                         (f'{base} / 0.{"9" * K}', X.div(fb, X.literal('0.' + '9' * K))),
                         (f'{base} / 1.{"0" * K}1', X.div(fb, X.literal('1.' + '0' * K + '1')))]
                for d in (3, 7, 11):
                    for sign in (1, -1):
                        num = fb * d + sign * ft
                        progs.append((f'{dec_text(num)} / {d}', X.div(num, Fraction(d))))
                        progs.append((f'x = {dec_text(num)}; x /= {d}; x', X.div(num, Fraction(d))))
                for text, want in progs:
                    expect_number(res, text, want, 'tie' + text.replace(base, '').strip()[:1] if not text.startswith('x =') else 'tie/=')
                res.count('pairs')
    elif kind == 'ints':
        # Python ints enter through len(): int / int must be decimal division too
        for i in range(0, 8):
            for j in range(0, 8):
                a, b2 = 'len("%s")' % ('a' * i), 'len("%s")' % ('b' * j)
                fi, fj = Fraction(i), Fraction(j)
                for op in BINOPS:
                    try:
                        want = model_bin(op, fi, fj)
                    except X.NumError:
                        want = 'error'
                    expect_number(res, f'{a} {op} {b2}', want, f'int{op}')
                    expect_number(res, f'x = {a}; x {op}= {b2}; x', want, f'int{op}=')
                    expect_number(res, f'c = [{a}]; c[0] {op}= {b2}; c[0]', want, f'int-index{op}=')
                if j:
                    expect_bool(res, f'{a} / {b2} == {i} / {j}', True, 'int-cmp')
                res.count('pairs')
        # booleans are numbers too (True = 1): results of comparisons, literals, host-like ints from len()
        bools = [('(1 < 2)', Fraction(1)), ('(2 < 1)', Fraction(0)), ('True', Fraction(1)), ('(0.1 + 0.2 == 0.3)', Fraction(1))]
        others = bools + [('len("abc")', Fraction(3)), ('3', Fraction(3)), ('0.5', Fraction(1, 2)), ('sum([1 < 2, 1 < 2, 1 < 2])', Fraction(3))]
        for a, fa in bools:
            for b2, fb in others:
                for x, fx, y, fy in ((a, fa, b2, fb), (b2, fb, a, fa)):
                    for op in BINOPS:
                        try:
                            want = model_bin(op, fx, fy)
                        except X.NumError:
                            want = 'error'
                        expect_number(res, f'{x} {op} {y}', want, f'bool{op}')
                        if want != 'error':
                            expect_number(res, f'({x} {op} {y}) * 3 + 0.5', X.add(X.mul(want, Fraction(3)), Fraction(1, 2)), f'bool{op}-then')
                        expect_number(res, f'q = {x}; q {op}= {y}; q', want, f'bool{op}=')
                res.count('pairs')
    elif kind == 'builtins':
        _, As, lits = task
        for a in As:
            fa = X.literal(a)
            vals = [(a, fa), (f'(0 - {a})', X.sub(Fraction(0), fa))]
            for b in lits[:12]:
                fb = X.literal(b)
                vals.append((f'({a} + {b})', X.add(fa, fb)))
                vals.append((f'({a} / {b})' if fb != 0 else f'({a} * {b})', X.div(fa, fb) if fb != 0 else X.mul(fa, fb)))
                expect_number(res, f'min({a}, {b})', min(fa, fb), 'min')
                expect_number(res, f'max({a}, {b})', max(fa, fb), 'max')
                expect_number(res, f'min([{a}, {b}, {a}])', min(fa, fb), 'min')
                if X.digits_of(abs(fa.numerator)) <= 28 and fa.denominator == 1 or len(a.replace('.', '')) <= 28:
                    expect_number(res, f'sum([{a}, {b}])', X.add(X.add(Fraction(0), fa), fb), 'sum')
            for text, v in vals:
                expect_number(res, f'floor({text})', Fraction(X.floor(v)), 'floor')
                expect_number(res, f'ceil({text})', Fraction(X.ceil(v)), 'ceil')
                expect_number(res, f'int({text})', Fraction(X.trunc(v)), 'int')
                expect_number(res, f'abs({text})', X.round_sig(abs(v)), 'abs')
                expect_number(res, f'round({text})', X.round_candidates(v, 0), 'round')
                for nd in (-1, 0, 1, 2):
                    # a result that needs more than 28 digits may raise an arithmetic error instead: not enumerated
                    if abs(v) < Fraction(10) ** (25 - max(nd, 0)):
                        expect_number(res, f'round({text}, {nd})' if nd >= 0 else f'round({text}, 0 - 1)', X.round_candidates(v, nd), f'round:{nd}')
            res.count('builtin_operands')
    return res


def main(tier, seed, t0):
    b = BOUNDS[tier]
    sys.set_int_max_str_digits(0)       # harness side only; see run()
    snapshot.api()
    lits, long_ = literal_alphabet(b['LITS'])
    allv = lits + long_
    tasks = []
    step = 4
    for i in range(0, len(allv), step):
        tasks.append(('pairs', allv[i:i + step], allv))
    red = (['0.1', '0.2', '0.3', '1', '0.4', '9' * 28, '0.' + '0' * 27 + '4', '1.809', '0.8683873806956042304114426942', '6', '3', '10', '0.5',
            '9.99', '35.05', '0'] + long_[:8] + lits[30:60])[:b['TRIPLES']]
    for a in red:
        tasks.append(('triples', [a], red))
    for i in range(0, len(allv), 8):
        tasks.append(('builtins', allv[i:i + 8], red))
    tasks.append(('ints',))
    tasks.append(('ties',))
    tasks = runner.rotate(tasks, seed)
    total = runner.run_tasks(work, tasks)
    n = total.n
    cov = {
        'states': n.get('pairs', 0) + n.get('triples', 0) + n.get('builtin_operands', 0),
        'transitions': n.get('evals', 0),
        'traces_validated_against_impl': n.get('evals', 0),
        'evaluations': n.get('evals', 0),
        'distinct_nontrivial': len(total.outcomes),
        'rule': '%d literals (%d short forms + %d long / tie-probing forms): every literal and its negation, all ordered pairs x {+,-,*,/} '
                'and x 6 comparisons, all triples of a %d-literal subset x 16 operator pairs x 3 tree shapes (incl. unary minus) plus '
                'sum-comparisons, and floor/ceil/int/abs/round(x[, -1..2])/min/max/sum on literals, negations, sums and quotients. '
                'distinct_nontrivial = distinct exact result values.' % (len(allv), len(lits), len(long_), len(red)),
        'exhaustive': True,
        'bounds': b,
    }
    return runner.finish(ID, tier, seed, total, cov, [
        'round(x, n): the statement fixes no tie rule - either neighbour is accepted on an exact tie; operands whose rounded '
        'result would need more than 28 digits are not enumerated for round(x, n)',
        'abs() and unary minus round to 28 significant digits like every other operation (only literals are exact)',
        'sum([..]) is defined as left-to-right addition starting from 0, each step rounded',
        'every task starts with failing arithmetic programs on the same thread (decimal context is thread state)',
    ], t0)


def replay(w):
    res = runner.Result()
    poison()
    out = run(w['program'])
    return f"program {w['program']!r}\n expected {w['expected']}\n observed now {out[1]!r}\n (re-run the check for the verdict: " \
           f"/venv/bin/python -m mc.run C08)"
