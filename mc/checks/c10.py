"""C10 - scoping: innermost-first lookup, host write-back, no leaking lambda scopes.

BFS over sequences of statements that all revolve around ONE name - `len` - which is at the same time
a builtin-table key, (optionally) a host binding, a top-level assignment target, a lambda parameter
and a name assigned inside host-built multi-statement lambda bodies (ast_names): reads, writes,
compound writes, lambdas that shadow / read / rebind it, direct, nested, dynamic-scope and recursive
calls, calls through map / filter / reduce / sorted, through the host callbacks apply (re-entrant),
swallow (catches ParserError) and swallow_all (catches every Exception), and bodies that raise.
Each sequence runs as separate eval calls over one names mapping and as one program.
Oracle: the scope model of mc/model/refeval.py (values, errors, host names afterwards), plus after
EVERY eval, normal or exceptional: the scope stack of that eval is back to [builtins, host names];
the builtin table is the same object with the same keys bound to the same objects.
"""
import sys

from ..core import runner, snapshot, opwrap
from ..model import refparse, refeval as M
from .c07 import canon_real, canon_model

ID = 'C10'

BOUNDS = {
    'quick': dict(DEPTH=2, DEEP=3),
    'thorough': dict(DEPTH=3, DEEP=4),
}

STATEMENTS = [
    'len', 'len("ab")', 'len = 5', 'len += 1', 'len = v => 7', 'len = [1]',
    'f = len => len', 'g = y => len', 'h = len => g(0)', 'r = len => len + u_undefined', 'r2 = len => 1 / 0', 'q = len => h(len + 1)',
    'w = n => 0 if n < 1 else w(n - 1) + len("a")', 'p = len => (len => len)(0)' if False else 'p = len => map([1], len => len)',
    'f(1)', 'g(0)', 'h(3)', 'q(1)', 'w(2)', 'p(9)', 'b1(0)', 'b2(0)', 'b3(5)', 'b4(1)',
    'map([1, 2], f)', 'map([1], g)', 'filter([1, 0], f)', 'reduce([1, 2], (len, y) => len + y)', 'sorted([2, 1], len => 0 - len)',
    'map([3], h)', 'map([1, 2], b1)', 'apply(h, 3)', 'apply(b2, 0)', 'swallow(r, 1)', 'swallow_all(r2, 1)', 'swallow(b5, 1)',
    'swallow_all(b6, 1)', 'map([1], r)', 'map([1], r2)', 'swallow(r, 1); len', 'swallow_all(r2, 1); len("abc")', 'y = len', 'y',
    'apply(y => swallow(r, y), 2); len', 'f = 0', 'del_probe = [len]',
    'w2 = n => 1 if n < 2 else w2(n - 1) * n', 'w2(4)', 'mk = len => (y => len + y)', 'add = mk(1)', 'add(5)', 'mk(2)(3)' if False else 'map([1, 2], mk(3))',
    'fib = len => len if len < 2 else fib(len - 1) + fib(len - 2)', 'fib(5)', 'map([3], fib)',
    'deep = len => 0 if len < 1 else deep(len - 1) + 1', 'swallow(deep, 200); len', 'swallow_all(deep, 260); len("ab")', 'deep(160); y = 1', 'swallow_all(deep, 900); len',
    # a call site evaluated before and after the name it calls is shadowed / a lambda without parameters that assigns
    'gl = v => len("abc"); gl(0)', 'len = v => 42; gl(0)', 'gl(0)', 'map([1, 2], v => len("ab") + v)', 'b0()', 'b8(1)', 'map([1], v => b0() + v)', 'b0() + len("ab")',
    'body = u => hh(u); w = hh => body(1); w(x => x + 41); body(1)', 'body = u => hh(u); w = hh => body(1); w(x => x + 41) + w(x => x + 1)',
    'cs = v => len(v); w3 = len => cs("ab"); [w3(x => 7), cs("abc")]',
    # the host changes its own mapping while the program runs (a callback that rebinds / unbinds the name): every read resolves afresh
    '[len, bump(), len]', 'bump(); len', 'unbind(); len("ab")', '[len("ab"), unbind(), len("ab")]', 'g(0) + [bump(), g(0)][1]',
    'map([1, 2], v => [len, bump(), len])', 'len = 5; [len, unbind(), len("abc")]', 'f2 = len => [len, bump(), len]; f2(1)', 'bump(); len += 1; len',
    'f(None)', 'len = None', 'h(None)', 'map([None, 3], f)', 'f(0)', 'f(False)', 'f("")', 'len = 0', 'g = None', 'b3(None)',
]
DEEP = ['[len, bump(), len]', 'unbind(); len("ab")', 'bump(); len', 'cs = v => len(v); w3 = len => cs("ab"); [w3(x => 7), cs("abc")]', 'gl = v => len("abc"); gl(0)', 'len = v => 42; gl(0)', 'b0()', 'b8(1)', 'swallow(deep, 200); len', 'swallow_all(deep, 260); len("ab")', 'swallow_all(deep, 900); len', 'w2(4)', 'add(5)', 'fib(5)', 'len', 'len("ab")', 'len = 5', 'len += 1', 'f(1)', 'g(0)', 'h(3)', 'b1(0)', 'b2(0)', 'b3(5)', 'swallow(r, 1); len',
        'swallow_all(r2, 1); len("abc")', 'map([1], g)', 'y']

AST_BODIES = {
    'b1': (['y'], 'len = 9; len'),
    'b2': (['y'], 'len += 1; len'),
    'b3': (['len'], 'len = len + 1; g(0)'),
    'b4': (['y'], 'z = y; z = z + 1; z'),
    'b5': (['y'], 'len = 3; u_undefined'),
    'b6': (['y'], 'len = 4; 1 / 0'),
    'b0': ([], 'len = 8; tmp0 = 1; len'),
    'b8': (['len'], 'b0(); len'),
}


HOST_MODES = ['absent', 'num', 'none', 'no-names', 'defaultdict']


class HostFn:
    """A host function of the model world."""

    def __init__(self, impl):
        self.impl = impl


def _patch_machine():
    if getattr(M.Machine, '_c10_patched', False):
        return
    orig = M.Machine.call

    def call(self, f, args):
        if isinstance(f, HostFn):
            return f.impl(self, args)
        return orig(self, f, args)
    M.Machine.call = call
    orig_fn = M.Machine.fn

    def fn(self, f, *args):
        if isinstance(f, HostFn):
            return f.impl(self, list(args))
        return orig_fn(self, f, *args)
    M.Machine.fn = fn
    M.Machine._c10_patched = True


def model_hosts():
    def apply(m, a):
        return m.fn(a[0], a[1])

    def swallow(m, a):
        try:
            return m.fn(a[0], a[1])
        except M.PErr:
            return M.Num.of_int(-1)

    def swallow_all(m, a):
        try:
            return m.fn(a[0], a[1])
        except (M.PErr, M.OtherErr):
            return M.Num.of_int(-2)
    def bump(m, a):
        m.scopes[1]['len'] = M.Num.of_int(55)
        return None

    def unbind(m, a):
        m.scopes[1].pop('len', None)
        return None
    return {'apply': HostFn(apply), 'swallow': HostFn(swallow), 'swallow_all': HostFn(swallow_all), 'bump': HostFn(bump), 'unbind': HostFn(unbind)}


def real_hosts():
    api = snapshot.api()
    D = api.Decimal

    def apply(f, v):
        return f(v)

    def swallow(f, v):
        try:
            return f(v)
        except api.ParserError:
            return D(-1)

    def swallow_all(f, v):
        try:
            return f(v)
        except Exception:  # noqa
            return D(-2)
    return {'apply': apply, 'swallow': swallow, 'swallow_all': swallow_all}


class Watch:
    def __init__(self):
        self.state = None

    def enter(self, node, state):
        if self.state is None:
            self.state = state

    def leave(self, node, value):
        pass

    def fail(self, node, exc):
        pass


_parser = [None]


def _reset():
    _parser[0] = None


runner.TASK_INIT.append(_reset)


def parser():
    if _parser[0] is None:
        _parser[0] = snapshot.api().new_parser()
    return _parser[0]


def ast_names_real():
    api = snapshot.api()
    ops = api.ast_ops
    return {k: ops.LambdaOp(args=[ops.NameOp(p) for p in params], expr=parser().parse(body)) for k, (params, body) in AST_BODIES.items()}


def run_sequence(res, hist, with_host_len, mode):
    """mode 'separate': one eval per statement over one names mapping; 'one': one program. Returns canonical state."""
    api = snapshot.api()
    _patch_machine()
    D = api.Decimal
    rnames = dict(real_hosts())
    mnames = dict(model_hosts())
    holder = [rnames]

    def bump():
        holder[0]['len'] = D(55)

    def unbind():
        holder[0].pop('len', None)
    rnames['bump'], rnames['unbind'] = bump, unbind
    if with_host_len == 'num':
        rnames['len'] = D(100)
        mnames['len'] = M.Num.of_int(100)
    elif with_host_len == 'none':
        rnames['len'] = None
        mnames['len'] = None
    elif with_host_len == 'defaultdict':
        # the host mapping is a dict subclass with __missing__: lookups must test membership, never provoke the default
        import collections
        rnames = collections.defaultdict(lambda: D(77), rnames)
        holder[0] = rnames
    no_names = with_host_len == 'no-names'
    progs = list(hist) if mode == 'separate' else ['; '.join(hist)]
    fn_ids0 = (id(api.FUNCTIONS), {k: id(v) for k, v in api.FUNCTIONS.items()})
    # ast_names: the model binds closures over the parsed bodies
    m_ast = {}
    for k, (params, body) in AST_BODIES.items():
        m_ast[k] = M.Closure(params, refparse.parse(body)[1])
    for prog in progs:
        tree = refparse.parse(prog)
        if tree[0] != 'ok':
            res.count('unparsable')
            return None
        # model
        if no_names:
            mnames = {}         # eval(expr, None): every call gets its own empty host scope
        mach = M.Machine(mnames, known_builtins=list(api.FUNCTIONS))
        for k, c in m_ast.items():
            mnames[k] = c
        if mode == 'separate' and len(hist) <= 2 and prog is progs[-1]:
            msaved = _copy_model_names(mnames)
        undefined = False
        try:
            mout = ('val', canon_model(mach.run(tree[1])))
        except M.Undefined:
            undefined = True
            mout = None
        except M.PErr:
            mout = ('PErr',)
        except M.OtherErr:
            mout = ('OtherErr',)
        except RecursionError:
            undefined = True
            mout = None
        # real
        sweep_abort = mode == 'separate' and len(hist) <= 2 and prog is progs[-1] and not no_names and with_host_len in ('absent', 'num', 'defaultdict')
        if sweep_abort:
            saved = _copy_names(rnames)
        w = Watch()
        try:
            with opwrap.traced(w):
                rv = parser().eval(prog, None if no_names else rnames, ast_names=ast_names_real(), max_ops_evaluated=20000)
            rout = ('val', canon_real(rv))
        except api.ParserError:
            rout = ('PErr',)
        except RecursionError:
            rout = ('OtherErr',)
            undefined = True
        except Exception:  # noqa
            rout = ('OtherErr',)
        res.count('evals')
        wit = {'history': list(hist), 'mode': mode, 'host_binds_len': with_host_len, 'program': prog}
        # ---- invariants that need no model
        if w.state is not None:
            depth = len(w.state.names.scopes)
            if depth != 2:
                res.violation(f'scope-stack:{_kind(prog)}', 'a lambda call scope is still on the scope stack after eval returned or raised',
                              dict(wit, expected='2 scopes (builtins, host names)', observed=f'{depth} scopes'))
                return None
            if not no_names and w.state.names.scopes[1] is not rnames:
                res.violation(f'host-scope-replaced:{_kind(prog)}', 'the second scope is no longer the host names mapping',
                              dict(wit, expected='host mapping', observed='another object'))
                return None
        fn_ids1 = (id(api.FUNCTIONS), {k: id(v) for k, v in api.FUNCTIONS.items()})
        if fn_ids1 != fn_ids0:
            res.violation(f'builtin-table-modified:{_kind(prog)}', 'the builtin table was modified by an evaluation',
                          dict(wit, expected='same table, same bindings', observed=repr(sorted(set(fn_ids1[1]) ^ set(fn_ids0[1])))[:200]))
            return None
        if undefined:
            res.count('undefined_by_model')
            return None
        if mout != rout:
            res.violation(f'result:{_kind(prog)}:{mout[0]}->{rout[0]}', 'result differs from the scope model',
                          dict(wit, expected=repr(mout)[:200], observed=repr(rout)[:200]))
            return None
        cm = canon_model({k: v for k, v in mnames.items() if not isinstance(v, HostFn) and k not in AST_BODIES})
        cr = canon_real({k: v for k, v in rnames.items() if k not in ('apply', 'swallow', 'swallow_all', 'bump', 'unbind') and k not in AST_BODIES})
        if not no_names and cm != cr:
            res.violation(f'host-names:{_kind(prog)}', 'the host names mapping differs from the scope model after eval (a lambda-local binding '
                          'leaked, or a top-level one was lost)', dict(wit, expected=repr(cm)[:300], observed=repr(cr)[:300]))
            return None
        res.outcome(f'{_kind(prog)}:{mout[0]}')
        if sweep_abort and w.state is not None:
            # ---- every abort point of this call: the same call under every budget N <= K, on an equal copy of the names
            A = len(AST_BODIES)             # the host-supplied trees are evaluated first, one operation each, under the same budget
            K = w.state.ops_evaluated - A
            prefix_states = []
            skip = ('apply', 'swallow', 'swallow_all', 'bump', 'unbind')
            for N in range(1, min(K, ABORT_CAP) + 1):
                # the reference run stopped at its N-th operation: the host names it leaves are a state the unbounded run passes through
                mn = _copy_model_names(msaved)
                mach2 = M.Machine(mn, budget=N, known_builtins=list(api.FUNCTIONS))
                try:
                    mach2.run(tree[1])
                except (M.PErr, M.OtherErr):
                    pass
                except (M.Undefined, RecursionError):
                    break
                ms = canon_model({k: v for k, v in mn.items() if not isinstance(v, (HostFn, M.Closure, M.Builtin)) and k not in AST_BODIES})
                if ms not in prefix_states:
                    prefix_states.append(ms)
                rn = _copy_names(saved)
                holder[0] = rn
                w2 = Watch()
                try:
                    with opwrap.traced(w2):
                        parser().eval(prog, rn, ast_names=ast_names_real(), max_ops_evaluated=N + A)
                except Exception:  # noqa
                    pass
                res.count('evals')
                res.count('abort_points')
                wit2 = dict(wit, budget=N, K=K)
                fn_ids2 = (id(api.FUNCTIONS), {k: id(v) for k, v in api.FUNCTIONS.items()})
                bad = None
                if w2.state is not None and len(w2.state.names.scopes) != 2:
                    bad = ('scope-stack-after-abort', f'{len(w2.state.names.scopes)} scopes')
                elif w2.state is not None and w2.state.names.scopes[1] is not rn:
                    bad = ('host-scope-replaced-after-abort', 'another object')
                elif fn_ids2 != fn_ids0:
                    bad = ('builtin-table-modified-after-abort', repr(sorted(set(fn_ids2[1]) ^ set(fn_ids0[1])))[:200])
                else:
                    got = canon_real({k: v for k, v in rn.items() if not callable(v) and k not in skip and k not in AST_BODIES})
                    if got not in prefix_states:
                        bad = ('host-names-after-abort', repr(got)[:300])
                if bad:
                    res.violation(f'{bad[0]}:{_kind(prog)}', 'after an eval call that was aborted by the ops limit: the scope stack is not [builtins, host '
                                  'names] / the builtin table changed / the host mapping holds a name that neither the host nor a top-level assignment bound',
                                  dict(wit2, expected='[builtins, host names]; host names one of ' + repr(prefix_states[::-1])[:300], observed=bad[1]))
                    holder[0] = rnames
                    return None
            holder[0] = rnames
    st = repr(sorted((k, _show_model(v)) for k, v in mnames.items() if not isinstance(v, HostFn) and k not in AST_BODIES))
    return st


ABORT_CAP = 40


def _copy_names(names):
    import copy
    new = type(names)(names.default_factory) if hasattr(names, 'default_factory') else {}
    for k, v in names.items():
        new[k] = v if callable(v) else copy.deepcopy(v)
    return new


def _copy_model_names(names):
    import copy
    return {k: (v if isinstance(v, (HostFn, M.Closure, M.Builtin)) else copy.deepcopy(v)) for k, v in names.items()}


def _show_model(v):
    if isinstance(v, M.Closure):
        return ('closure', tuple(v.params), repr(v.body))
    return repr(canon_model(v))


def _kind(prog):
    return prog[:26]


EQUAL_SCOPE = [
    # the host mapping has exactly the contents of a lambda call scope
    ({'v': 2}, 'map([2], v => v); y = 5'), ({'v': 2}, 'map([2], v => v + 1); v = 3; v'), ({'v': 2}, 'sorted([2], v => v); y = 1; y'),
    ({'v': 2}, 'filter([2, 2], v => v); v'), ({'a': 1, 'b': 2}, 'reduce([1, 2], (a, b) => a + b); c = 3; c'),
    ({'v': 2}, 'f = v => v; v'), ({'k': 'x', 'v': 1}, 'map({"x": 1}, (k, v) => v); z = 0; [k, v, z]'), ({}, 'map([1], () => 1) if False else 0; q = 1; q'),
]


def equal_scope_cases(res):
    api = snapshot.api()
    for spec, prog in EQUAL_SCOPE:
        for mode in ('one', 'separate'):
            rn = {k: (api.Decimal(v) if isinstance(v, int) else v) for k, v in spec.items()}
            mn = {k: (M.Num.of_int(v) if isinstance(v, int) else v) for k, v in spec.items()}
            progs = [prog] if mode == 'one' else prog.split('; ')
            for pg in progs:
                tree = refparse.parse(pg)
                if tree[0] != 'ok':
                    continue
                try:
                    mout = ('val', canon_model(M.Machine(mn, known_builtins=list(api.FUNCTIONS)).run(tree[1])))
                except M.Undefined:
                    mout = None
                except M.PErr:
                    mout = ('PErr',)
                except M.OtherErr:
                    mout = ('OtherErr',)
                w = Watch()
                try:
                    with opwrap.traced(w):
                        rout = ('val', canon_real(parser().eval(pg, rn)))
                except api.ParserError:
                    rout = ('PErr',)
                except Exception:  # noqa
                    rout = ('OtherErr',)
                res.count('evals')
                wit = {'history': progs, 'mode': mode, 'host_binds_len': 'n/a', 'program': pg, 'host_names': repr(spec)}
                if w.state is not None and (len(w.state.names.scopes) != 2 or w.state.names.scopes[1] is not rn):
                    res.violation('scope-stack:equal-scope', 'after eval the scope stack is not [builtins, host names] (host mapping equal '
                                  'to a lambda call scope)', dict(wit, expected='[builtins, host mapping]', observed=f'{len(w.state.names.scopes)} scopes'))
                    break
                if mout is not None and mout != rout:
                    res.violation('result:equal-scope', 'result differs from the scope model', dict(wit, expected=repr(mout), observed=repr(rout)))
                    break
                if mout is not None and canon_model(mn) != canon_real({k: v for k, v in rn.items() if not callable(v)}) and \
                        canon_model({k: v for k, v in mn.items() if not isinstance(v, M.Closure)}) != canon_real({k: v for k, v in rn.items() if not callable(v)}):
                    res.violation('host-names:equal-scope', 'host names differ from the scope model',
                                  dict(wit, expected=repr(canon_model({k: v for k, v in mn.items() if not isinstance(v, M.Closure)})),
                                       observed=repr(canon_real({k: v for k, v in rn.items() if not callable(v)}))))
                    break


def work(task):
    res = runner.Result()
    opwrap.install()
    # a host with a generous recursion limit: language recursion 260 deep completes (the tracer adds frames per node), 900 deep does not
    sys.setrecursionlimit(4000)
    if task[0] == 'equal-scope':
        equal_scope_cases(res)
        return res
    hists, deep, host_len = task
    stmts = DEEP if deep else STATEMENTS
    for hist in hists:
        for s in stmts:
            h2 = list(hist) + [s]
            st = run_sequence(res, h2, host_len, 'separate')
            res.count('transitions')
            if len(h2) > 1:
                run_sequence(res, h2, host_len, 'one')
                res.count('transitions')
            if st is not None:
                res.bag.add((host_len, runner.h(st), tuple(h2)))
    return res


def main(tier, seed, t0):
    b = BOUNDS[tier]
    snapshot.api()
    total = runner.Result()
    seen = set()
    frontier = [(hl, ()) for hl in HOST_MODES]
    depth = 0
    while frontier and depth < b['DEEP']:
        depth += 1
        tasks = []
        for hl in HOST_MODES:
            hs = [h for x, h in frontier if x == hl]
            n = max(1, len(hs) // 32 + 1)
            tasks += [(hs[i:i + n], depth > b['DEPTH'], hl) for i in range(0, len(hs), n)]
        if depth == 1:
            tasks.append(('equal-scope',))
        r = runner.run_tasks(work, runner.rotate(tasks, seed), selftest=(depth == 1))
        new = []
        for hl, st, hist in sorted(r.bag, key=lambda x: (x[0], x[2])):
            if (hl, st) not in seen:
                seen.add((hl, st))
                new.append((hl, hist))
        r.bag = set()
        total.merge(r)
        frontier = new
        if depth == 2 and new:
            total.sample({'host_binds_len': new[len(new) // 2][0], 'history': list(new[len(new) // 2][1])})
    n = total.n
    cov = {
        'states': len(seen),
        'transitions': n.get('transitions', 0),
        'traces_validated_against_impl': n.get('evals', 0),
        'evaluations': n.get('evals', 0),
        'distinct_nontrivial': len(total.outcomes),
        'rule': 'BFS to depth %d over %d statements about the one name `len` (builtin key / host binding / assignment target / lambda '
                'parameter / local of host-built bodies), then %d of them to depth %d; every sequence as separate evals over one names '
                'mapping and as one program, with `len` unbound / bound to a number / bound to None by the host / eval called with names=None; 8 scenarios where the host mapping equals a lambda call scope; states deduplicated on the model\'s host names '
                '(closures by body). undefined_by_model=%d. distinct_nontrivial = distinct (statement, outcome class).'
                % (b['DEPTH'], len(STATEMENTS), len(DEEP), b['DEEP'], n.get('undefined_by_model', 0)),
        'exhaustive': True,
        'frontier_exhausted': not frontier,
        'max_depth': depth,
        'bounds': b,
    }
    return runner.finish(ID, tier, seed, total, cov, [
        'scope model: mc/model/refeval.py (dynamic scoping: scopes = builtins, host names, one dict per lambda call in progress)',
        'the scope stack of an eval is read from the VM state handed to the tracer',
    ], t0)


def replay(w):
    res = runner.Result()
    opwrap.install()
    run_sequence(res, list(w['history']), w['host_binds_len'], w['mode'])
    return ('REPRODUCED' if res.viol else 'HOLDS') + f"\n history={w['history']!r} mode={w['mode']} host_binds_len={w['host_binds_len']}\n " + \
        repr({k: v[1][:1] for k, v in res.viol.items()})[:600]
