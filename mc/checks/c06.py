"""C06 - the parser accepts exactly the grammar and groups by the operator table.

Spaces (all enumerated completely, DESIGN.md 4/C06):
  A  token strings over SIGMA_Q   up to L tokens  (prefix tree with both-dead pruning)
  B  token strings over SIGMA_FULL up to L' tokens
  C  character strings over SIGMA_CHAR up to length M (no pruning) - lexer + parser
  D  sentences with <= n constructor nodes, every subset of composite operand slots
     parenthesised
Oracle: reference lexer + reference Pratt parser (mc/model).
"""
import time

from ..core import runner, e1, snapshot, clone
from ..model import refparse, reflex
from ..spaces import tokens as T, sentences as S

ID = 'C06'

BOUNDS = {
    'quick': dict(LQ=5, LF=3, M=4, N=2, MUT=1),
    'thorough': dict(LQ=6, LF=4, M=5, N=2, MUT=2),
}


_cached = [None]


def _reset_cached():
    _cached[0] = None


runner.TASK_INIT.append(_reset_cached)


def cached_check(res, v):
    """The same text on a parser WITH a parse cache (shared by all texts of the task) must give the same verdict."""
    import copy
    from ..core import real as realmod
    if _cached[0] is None:
        e1.get_real()
        p = clone.pristine(e1._template)
        p.parse_cache = {}
        _cached[0] = realmod.Real(p)
    Rc = _cached[0]
    if len(Rc.parser.parse_cache) > 4000:
        Rc.parser.parse_cache.clear()
    r = Rc.parse(v.text)
    res.count('cached_parses')
    if (r[0] == 'ok') != (v.rk == 'ok') or (r[0] == 'ok' and r[1] != v.r[1]):
        res.violation('parse-cache-changes-verdict:' + e1.context_types(v.text, None, 3),
                      'with a parse cache the same text is accepted / rejected / parsed differently',
                      {'text': v.text, 'expected': repr(v.r[:2])[:300], 'observed': repr(r[:2])[:300]})


def visit(res, v, symbols):
    e1.compare_parse(res, v, ID, 'token string')
    cached_check(res, v)
    if v.mk == 'ok':
        res.state(v.text)
        if len(symbols) >= 4:
            res.sample({'text': v.text, 'tree': repr(v.m[1])}, cap=2)


def lexcheck(res, text):
    """Lexer conformance: token types, values, offsets."""
    R = e1.get_real()
    rt, rerr = R.tokens(text)
    try:
        mt = reflex.tokens(text)
        merr = None
    except reflex.LexError as e:
        mt, merr = e.tokens, e
    rn = [(t[0], e1.realmod.neutral_value(t[1]) if t[0] in ('NUMBER', 'STRING') else t[1], t[2]) for t in rt]
    mn = [(t[0], ('num', t[1][0], t[1][1]) if t[0] == 'NUMBER' else (('str', t[1]) if t[0] == 'STRING' else t[1]), t[2])
          for t in mt]
    if rn != mn or (rerr is None) != (merr is None):
        i = 0
        while i < len(rn) and i < len(mn) and rn[i] == mn[i]:
            i += 1
        a = mn[i][0] if i < len(mn) else ('ERR' if merr else 'END')
        b = rn[i][0] if i < len(rn) else ('ERR' if rerr else 'END')
        res.violation(f'lex:{a}|{b}', 'token stream differs from the lexical grammar',
                      {'text': text, 'expected': repr(mn) + (' +error' if merr else ''),
                       'observed': repr(rn) + (f' +{type(rerr).__name__}' if rerr else '')})
    res.count('lexed')


def long_sentences(n):
    """Sentences the grammar derives whose TREES are n levels deep or n items wide (no bracket nesting needed)."""
    return [
        ('add-chain', 'a' + ' + a' * n), ('pow-chain', '2' + ' ** 2' * n), ('pipe-chain', 'a' + ' | f' * n), ('method-chain', 'a' + '.f()' * n),
        ('not-chain', 'not ' * n + 'a'), ('neg-chain', '- ' * n + 'a'), ('index-chain', 'a' + '[0]' * n), ('cond-chain', 'a if b else ' * n + 'c'),
        ('lambda-chain', 'x => ' * n + 'x'), ('and-chain', 'a' + ' and a' * n), ('statements', 'a\n' * n), ('args', 'f(' + 'a, ' * n + 'a)'),
        ('list', '[' + '1, ' * n + '1]'), ('dict', '{' + '"k": 1, ' * n + '"k": 1}'), ('cmp-in-paren', '(' * 20 + 'a < b' + ')' * 20 + ' + a' * n),
    ]


def scale_check(res):
    """Long derivable sentences: accepted by the plain parser and, identically, by a caching one (miss and hit)."""
    e1.get_real()
    api = snapshot.api()
    for n in (60, 400, 1500, 10001):
        for label, text in long_sentences(n):
            if n > 1500 and label not in ('list', 'dict', 'args', 'statements'):
                continue
            outs = []
            for mode in ('plain', 'cache-miss', 'cache-hit'):
                if mode == 'plain':
                    p = clone.pristine(e1._template)
                elif mode == 'cache-miss':
                    p = clone.pristine(e1._template)
                    p.parse_cache = {}
                try:
                    t = p.parse(text)
                    outs.append('ok' if t is not None else 'none')
                except api.ParserError:
                    outs.append('ParserError')
                except Exception as e:  # noqa
                    outs.append(type(e).__name__)
                res.count('long_sentence_parses')
            res.outcome(f'scale:{label}:{outs[0]}')
            if outs != ['ok', 'ok', 'ok']:
                res.violation(f'long-sentence:{label}:{n}:{"/".join(outs)}', 'a sentence the grammar derives is not accepted (plain parser / '
                              'caching parser on a miss / on a hit)', {'text': text[:60] + '...', 'label': label, 'n': n,
                                                                       'expected': 'ok / ok / ok', 'observed': ' / '.join(outs)})


def work(task):
    kind = task[0]
    res = runner.Result()
    if kind == 'scale':
        scale_check(res)
        return res
    if kind == 'tok':
        _, alpha_name, prefix, L = task
        alphabet = T.SIGMA_Q if alpha_name == 'Q' else T.SIGMA_FULL
        e1.explore(prefix, alphabet, L, visit, res)
    elif kind == 'chr':
        _, prefix, M = task
        alphabet = T.SIGMA_CHAR
        # complete enumeration, no pruning
        stack = [prefix]
        while stack:
            p = stack.pop()
            for c in alphabet:
                q = p + c
                lexcheck(res, q)
                v = e1.Verdict(q)
                res.count('strings')
                e1.compare_parse(res, v, ID, 'character string')
                if len(q) < M:
                    stack.append(q)
    elif kind == 'sent':
        _, n, lo, hi, mut_n = task
        cs = S.constructors()
        sks = _sentence_skeletons(n)
        for idx in range(lo, hi):
            sk = sks[idx]
            tree = S.build_statement(sk, cs, S.LeafSupply(idx))
            slots = S.composite_slots(tree)
            want = S.to_neutral(tree)
            full = frozenset(slots)
            for par in S.subsets(slots):
                text = ' '.join(S.render(tree, par))
                v = e1.Verdict(text)
                res.count('strings')
                res.count('sentence_texts')
                e1.compare_parse(res, v, ID, 'sentence')
                cached_check(res, v)
                if par == full and tree[0] not in ('setitem', 'setop', 'del') and 'ungrammatical' not in repr(want):
                    # model self-check: the fully parenthesised rendering gives back the tree
                    if v.mk != 'ok' or v.m[1] != ('code', [want]):
                        res.count('INTERNAL_model_selfcheck_failed')
                        res.notes.setdefault('selfcheck', [text, repr(v.m), repr(want)])
            if mut_n is not None and _nodes(sk) <= mut_n:
                # every one-token substitution and insertion over SIGMA_Q
                base = S.render(tree)
                for i in range(len(base) + 1):
                    for sym in T.SIGMA_Q:
                        cands = [base[:i] + [sym] + base[i:]]
                        if i < len(base) and base[i] != sym:
                            cands.append(base[:i] + [sym] + base[i + 1:])
                        for toks in cands:
                            v = e1.Verdict(' '.join(toks))
                            res.count('strings')
                            res.count('one_token_mutations')
                            e1.compare_parse(res, v, ID, 'one-token mutation of a sentence')
                for i in range(len(base)):
                    v = e1.Verdict(' '.join(base[:i] + base[i + 1:]))
                    res.count('strings')
                    res.count('one_token_mutations')
                    e1.compare_parse(res, v, ID, 'one-token deletion in a sentence')
    return res


_sk_cache = {}


def _sentence_skeletons(n):
    if n not in _sk_cache:
        cs = S.constructors()
        _sk_cache[n] = list(S.gen_statements(n, cs))
    return _sk_cache[n]


def _nodes(sk):
    def cnt(k):
        return 0 if k[0] == 'L' else 1 + sum(cnt(c) for c in k[2])
    return sum(cnt(k) for k in sk[1])


def main(tier, seed, t0):
    b = BOUNDS[tier]
    snapshot.api()
    e1.get_real()
    parent = runner.Result()
    tasks = []
    for name, alphabet, L in (('Q', T.SIGMA_Q, b['LQ']), ('F', T.SIGMA_FULL, b['LF'])):
        depth = 2 if L > 2 else 1
        viable = e1.seeds(alphabet, depth, visit, parent)
        if L > depth:
            tasks += [('tok', name, p, L) for p in viable]
    for c in T.SIGMA_CHAR:
        lexcheck(parent, c)
        v = e1.Verdict(c)
        parent.count('strings')
        e1.compare_parse(parent, v, ID, 'character string')
        if b['M'] > 1:
            tasks.append(('chr', c, b['M']))
    nsk = len(_sentence_skeletons(b['N']))
    step = max(1, nsk // 256)
    tasks += [('sent', b['N'], lo, min(nsk, lo + step), b['MUT']) for lo in range(0, nsk, step)]
    tasks.append(('scale',))
    tasks = runner.rotate(tasks, seed)
    total = runner.run_tasks(work, tasks)
    total.merge(parent)
    if total.n.get('INTERNAL_model_selfcheck_failed'):
        print('INTERNAL-ERROR: reference parser does not reproduce its own generating trees:',
              total.notes.get('selfcheck'))
        return 2
    n = total.n
    cov = {
        'states': n.get('viable_prefixes', 0) + n.get('sentence_texts', 0),
        'transitions': n.get('strings', 0),
        'traces_validated_against_impl': n.get('strings', 0),
        'evaluations': n.get('strings', 0),
        'distinct_nontrivial': len(total.outcomes),
        'rule': 'every token string over SIGMA_Q (34 symbols) up to %d tokens and over SIGMA_FULL (55) up to %d, '
                'explored as a prefix tree pruned only where BOTH parsers are dead; every character string over '
                'SIGMA_CHAR (%d) up to length %d; every statement with <= %d constructor nodes under every subset of '
                'parenthesised operand slots (published and unpublished slice shapes); every one-token substitution, insertion '
                '(over SIGMA_Q) and deletion in every statement with <= %d nodes. distinct_nontrivial = distinct trees accepted '
                'by both parsers.' % (b['LQ'], b['LF'], len(T.SIGMA_CHAR), b['M'], b['N'], b['MUT']),
        'exhaustive': True,
        'bounds': b,
        'sentence_skeletons': nsk,
    }
    return runner.finish(ID, tier, seed, total, cov, [
        'reference lexer/parser in mc/model are written from the published grammar and operator table',
        'pruning is sound because both parsers are online (verdict "dead at token i" depends on tokens 0..i only)',
    ], t0)


def replay(w):
    from ..core import real
    if 'label' in w and 'n' in w:
        res = runner.Result()
        snapshot.api()
        scale_check(res)
        hit = [k for k in res.viol if k.startswith(f"long-sentence:{w['label']}:{w['n']}:")]
        return ('REPRODUCED' if hit else 'HOLDS') + f"\n long sentence {w['label']} n={w['n']}\n {hit!r}"
    R = real.Real()
    text = w['text']
    r = R.parse(text)
    m = refparse.parse(text)
    same = (r[0] == 'ok') == (m[0] == 'ok') and (r[0] != 'ok' or r[1] == m[1])
    return ('HOLDS' if same else 'REPRODUCED') + f'\n text={text!r}\n real={r!r}\n reference={m[:2]!r}'
