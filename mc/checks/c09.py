"""C09 - lazy and / or / if-else; all other operands evaluated once, left to right.

Every operand-bearing construct (all binary and unary operators, if-else, calls in the three
syntaxes, list / dict literals, index and every slice shape, the statement forms, lambda
definition and call) gets an observable probe t(i) in every operand slot; in turn each slot
gets one nested level of {and, or, if-else, +, call} over probes.  Every assignment of
{truthy, falsy, raises} to the probes is evaluated.
Oracle: a 40-line order model (left to right, condition then one branch, right operand of
and / or only if needed, stop at the first raise): the probe log must equal the model's
sequence exactly; a raising probe's exception must come out unchanged; and / or / if-else must
yield the very object the deciding probe returned.
Probes return instances of a Decimal subclass that supports every operator, so that no
operation fails for type reasons before the order can be observed.
"""
import decimal
import itertools

from ..core import runner, snapshot
from ..spaces import sentences as S

ID = 'C09'

BOUNDS = {
    'quick': dict(MAXPROBES=6, NEST=True),
    'thorough': dict(MAXPROBES=8, NEST=True),
}


class ProbeRaise(Exception):
    pass


def make_univ():
    api = snapshot.api()

    class Univ(api.Decimal):
        """A number that tolerates every operator (host objects may be anything)."""
        def _t(self, *a):
            return decimal.Decimal(1)
        __add__ = __radd__ = __sub__ = __rsub__ = __truediv__ = __rtruediv__ = __neg__ = __pos__ = _t

        def _b(self, *a):
            return True
        __lt__ = __le__ = __gt__ = __ge__ = _b

        def __eq__(self, o):
            return True

        def __ne__(self, o):
            return False
        __hash__ = decimal.Decimal.__hash__

        def __contains__(self, x):
            return True

        def __getitem__(self, k):
            return decimal.Decimal(1)

        def __setitem__(self, k, v):
            pass

        def __delitem__(self, k):
            pass

        def __len__(self):
            return 1

        def __iter__(self):
            return iter(())

        def __deepcopy__(self, memo):
            return self

        def __copy__(self):
            return self
    return Univ


# ------------------------------------------------------------------ model

def model(tree, val, log):
    """Returns (truthy, deciding_probe_or_None). Raises ProbeRaise."""
    k = tree[0]
    if k == 'probe':
        i = tree[1]
        log.append(i)
        if val[i] == 'raise':
            raise ProbeRaise(i)
        return (val[i] == 'truthy', i)
    if k == 'lit':
        return (tree[1], None)
    if k == 'bin':
        op = tree[1]
        a = model(tree[2], val, log)
        if op == 'and':
            return model(tree[3], val, log) if a[0] else a
        if op == 'or':
            return a if a[0] else model(tree[3], val, log)
        model(tree[3], val, log)
        return (True, None)
    if k == 'un':
        a = model(tree[2], val, log)
        return ((not a[0]) if tree[1] == 'not' else True, None)
    if k == 'if':
        c = model(tree[1], val, log)
        return model(tree[2], val, log) if c[0] else model(tree[3], val, log)
    if k in ('lam1', 'lamN'):
        return (True, None)
    if k in ('paren', 'expr'):
        return model(tree[1], val, log)
    # everything else: operands in source order
    for _, child in S.children(tree):
        model(child, val, log)
    return (True, None)


def number_probes(tree, counter):
    """Replace every leaf by a probe, numbered in source order."""
    k = tree[0]
    if k == 'leaf':
        i = counter[0]
        counter[0] += 1
        return ('probe', i)
    if k in ('probe', 'lit'):
        return tree
    lst = list(tree)
    # children in SOURCE order: if-else is (cond, a, b) in the tuple but a, cond, b in the source
    order = [slot for slot, _ in S.children(tree)]
    repl = {}
    for slot, child in S.children(tree):
        repl[slot if not isinstance(slot, tuple) else slot] = number_probes(child, counter)
    return _rebuild(tree, repl)


def _rebuild(t, repl):
    k = t[0]
    lst = list(t)
    for slot, new in repl.items():
        if isinstance(slot, tuple):
            if k == 'call':
                a = list(lst[2]); a[slot[1]] = new; lst[2] = a
            elif k in ('meth', 'pipe', 'slice'):
                a = list(lst[3]); a[slot[1]] = new; lst[3] = a
            elif k == 'list':
                a = list(lst[1]); a[slot[1]] = new; lst[1] = a
            elif k == 'dict':
                items = [list(x) for x in lst[1]]
                items[slot[1]][slot[2]] = new
                lst[1] = [tuple(x) for x in items]
        else:
            lst[slot] = new
    return tuple(lst)


def render_probes(tree):
    """Surface text; probes render as t(i)."""
    def leafify(t):
        if t[0] == 'probe':
            return ('leaf', f't({t[1]})', None)
        if t[0] == 'lit':
            return ('leaf', t[2], None)
        repl = {slot: leafify(child) for slot, child in S.children(t)}
        return _rebuild(t, repl)
    return ' '.join(S.render(leafify(tree)))


FILLERS = ['and', 'or', 'if', '+', 'call']
LITERALS = [('lit', True, 'True'), ('lit', False, 'False'), ('lit', False, 'None'), ('lit', False, '0'), ('lit', True, '1'), ('lit', False, '""'),
            ('lit', True, '"s"'), ('lit', False, '[]'), ('lit', True, '[0]')]
FALSY_KINDS = ['dec0', 'int0', 'float0', 'empty-str', 'empty-list', 'empty-tuple', 'none', 'false', 'empty-dict']


def filler(kind):
    L = ('leaf', 'x', None)
    if kind == 'and':
        return ('paren', ('bin', 'and', L, L))
    if kind == 'or':
        return ('paren', ('bin', 'or', L, L))
    if kind == 'if':
        return ('paren', ('if', L, L, L))
    if kind == '+':
        return ('paren', ('bin', '+', L, L))
    return ('call', 'f', [L, L])


def paren_children(t):
    return t


def shapes():
    """(label, surface tree with plain leaves) for every operand-bearing construct."""
    out = []
    L = ('leaf', 'x', None)
    cs = S.constructors()
    for name, arity, build in cs:
        if 'slice' in name and name.split(' ')[1] in S.UNPUBLISHED_SLICE_FORMS:
            continue
        out.append((name, ('expr', build([L] * arity))))
    out.append(('call3', ('expr', ('call', 'f', [L, L, L]))))
    out.append(('list3', ('expr', ('list', [L, L, L]))))
    out.append(('dict3', ('expr', ('dict', [(L, L), (L, L), (L, L)]))))
    out.append(('meth3', ('expr', ('meth', 'g', L, [L, L]))))
    for sname, arity, build in S.STATEMENTS:
        out.append(('stmt ' + sname, build([L] * arity)))
    for op in S.SHORTOPS:
        out.append((f'short{op}', ('short', 'x', op, L)))
        out.append((f'setop{op}', ('setop', L, L, op, L)))
    return out


def variants(tree, nest):
    """The tree with probes everywhere, plus one nested filler in each slot in turn."""
    yield tree
    if not nest:
        return
    slots = [p for p in _leaf_paths(tree)]
    for p in slots:
        for fk in FILLERS:
            yield _replace(tree, p, filler(fk))
        for lit in LITERALS:
            yield _replace(tree, p, lit)


def _leaf_paths(t, path=()):
    out = []
    for slot, child in S.children(t):
        if child[0] == 'leaf':
            out.append(path + (slot,))
        else:
            out.extend(_leaf_paths(child, path + (slot,)))
    return out


def _replace(t, path, new):
    if not path:
        return new
    slot = path[0]
    child = dict(S.children(t))[slot]
    return _rebuild(t, {slot: _replace(child, path[1:], new)})


_parser = [None]


def _reset():
    _parser[0] = None


runner.TASK_INIT.append(_reset)


def parser():
    if _parser[0] is None:
        _parser[0] = snapshot.api().new_parser()
    return _parser[0]


def falsy_object(kind, Univ):
    return {'dec0': lambda: Univ(0), 'int0': lambda: 0, 'float0': lambda: 0.0, 'empty-str': lambda: '', 'empty-list': lambda: [],
            'empty-tuple': lambda: (), 'none': lambda: None, 'false': lambda: False, 'empty-dict': lambda: {}}[kind]()


def run_case(res, label, text, tree, val, Univ, extra=None, falsy='dec0', strict=False):
    log = []
    objs = {}

    def t(i):
        i = int(i)
        log.append(i)
        if val[i] == 'raise':
            raise ProbeRaise(i)
        o = Univ(1) if val[i] == 'truthy' else falsy_object(falsy, Univ)
        objs[i] = o
        return o
    names = {'t': t, 'f': lambda *a: Univ(1), 'g': lambda *a: Univ(1), 'h': lambda *a: Univ(1), 'x': Univ(1)}
    if extra:
        names.update(extra)
    mlog = []
    mres = None
    mexc = None
    try:
        mres = model(tree, val, mlog)
    except ProbeRaise as e:
        mexc = e.args[0]
    out = exc = None
    try:
        out = parser().eval(text, names, max_ops_evaluated=10000)
    except ProbeRaise as e:
        exc = ('probe', e.args[0])
    except Exception as e:  # noqa
        exc = ('other', type(e).__name__)
    res.count('evals')
    w = {'shape': label, 'program': text, 'valuation': [val[i] for i in sorted(val)], 'falsy_kind': falsy}
    if exc is not None and exc[0] == 'other' and not strict:
        # the operation itself failed after its operands: the log must be a prefix of the model's
        if log != mlog[:len(log)]:
            res.violation(f'order:{label}', 'operands are not evaluated once, left to right (program ended with an unrelated error)',
                          dict(w, expected=mlog, observed=log))
        res.count('ended_with_operator_error')
        res.outcome(f'{label}:opfail')
        return
    if exc is not None and exc[0] == 'other':
        exc = None
        mexc = None if mexc is None else mexc
        if log != mlog:
            res.violation(f'order:{label}:strict', 'a call did not evaluate all its arguments once, left to right, before the function ran',
                          dict(w, expected=mlog, observed=log))
        return
    if log != mlog:
        kind = 'lazy' if any(x in label for x in ('and', 'or', 'if')) else 'order'
        more = 'more' if len(log) > len(mlog) else ('fewer' if len(log) < len(mlog) else 'reordered')
        res.violation(f'{kind}:{label}:{more}', 'probe log differs from the evaluation-order model',
                      dict(w, expected=mlog, observed=log))
        return
    if (mexc is None) != (exc is None) or (exc is not None and exc[1] != mexc):
        res.violation(f'raise:{label}', 'the exception of a raising operand did not come out unchanged',
                      dict(w, expected=f'probe {mexc} raises' if mexc is not None else 'no exception', observed=repr(exc)))
        return
    res.outcome(f'{label}:{len(log)}:{"raise" if exc else "ok"}')
    # identity of the deciding operand for top-level and / or / if-else
    top = tree[1] if tree[0] == 'expr' else None
    if exc is None and top is not None and (top[0] == 'if' or (top[0] == 'bin' and top[1] in ('and', 'or'))):
        if mres[1] is not None and out is not objs.get(mres[1]):
            res.violation(f'identity:{label}', 'and / or / if-else did not yield the deciding operand itself',
                          dict(w, expected=f'the object returned by probe {mres[1]}', observed=repr(out)))


def work(task):
    res = runner.Result()
    Univ = make_univ()
    kind = task[0]
    b = task[-1]
    if kind == 'shape':
        _, label, tree, _b = task
        for v in variants(tree, b['NEST']):
            pt = number_probes(v, [0])
            n = _count(pt)
            if n > b['MAXPROBES']:
                res.count('variants_skipped_too_many_probes')
                continue
            text = render_probes(pt)
            res.count('programs')
            lazy = any(x in text for x in (' and ', ' or ', ' if ', 'not ')) and _pure_lazy(pt)
            for combo in itertools.product(('truthy', 'falsy', 'raise'), repeat=n):
                val = dict(enumerate(combo))
                run_case(res, label, text, pt, val, Univ)
                if lazy and 'falsy' in combo and n <= 4:
                    for fk in FALSY_KINDS[1:]:
                        run_case(res, label, text, pt, val, Univ, falsy=fk)
        res.sample({'shape': label, 'program': render_probes(number_probes(tree, [0]))})
    else:
        # lambda call / higher-order shapes written by hand: (text, model tree)
        P = lambda i: ('probe', i)   # noqa
        hand = [
            ('lambda-call', 'h = (p, q) => t(2) + p; h(t(0), t(1))', ('seq', [P(0), P(1), P(2)])),
            ('lambda-def', 'h = p => t(0)', ('seq', [])),
            ('lambda-call-lazy', 'h = p => p and t(1); h(t(0))', ('seq', [('bin', 'and', P(0), P(1))])),
            ('map', 'map([t(0), t(1)], v => t(2))', ('seq', [P(0), P(1), P(2), P(2)])),
            ('filter', 'filter([t(0), t(1)], v => t(2))', ('seq', [P(0), P(1), P(2), P(2)])),
            ('reduce', 'reduce([t(0), t(1), t(2)], (a, b) => t(3))', ('seq', [P(0), P(1), P(2), P(3), P(3)])),
            ('two-statements', 't(0); t(1) and t(2); t(3)', ('seq', [P(0), ('bin', 'and', P(1), P(2)), P(3)])),
            ('nested-lazy', 't(0) or t(1) and t(2) or t(3)', ('bin', 'or', ('bin', 'or', P(0), ('bin', 'and', P(1), P(2))), P(3))),
            ('if-chain', 't(0) if t(1) else t(2) if t(3) else t(4)', ('if', P(1), P(0), ('if', P(3), P(2), P(4)))),
            ('not-lazy', 'not t(0) and t(1)', ('bin', 'and', ('un', 'not', P(0)), P(1))),
            ('pipe-chain', 't(0) | f(t(1)) | g(t(2))', ('seq', [P(0), P(1), P(2)])),
            ('setitem-nested', 't(0)[t(1)][t(2)] = t(3)', ('seq', [P(0), P(1), P(2), P(3)])),
            ('dict-in-list', '[{t(0): t(1)}, t(2)]', ('seq', [P(0), P(1), P(2)])),
            # the same subexpression written twice is evaluated twice (no common-subexpression shortcut)
            ('same-if-cond-branch', 't(0) if t(0) else t(1)', ('if', P(0), P(0), P(1))), ('same-if-cond-else', 't(1) if t(0) else t(0)', ('if', P(0), P(1), P(0))),
            ('same-if-branches', 't(0) if t(1) else t(0)', ('if', P(1), P(0), P(0))), ('same-and', 't(0) and t(0)', ('bin', 'and', P(0), P(0))),
            ('same-or', 't(0) or t(0)', ('bin', 'or', P(0), P(0))), ('same-or-and', 't(0) or t(1) and t(0)', ('bin', 'or', P(0), ('bin', 'and', P(1), P(0)))),
            ('same-plus', 't(0) + t(0)', ('seq', [P(0), P(0)])), ('same-eq', 't(0) == t(0)', ('seq', [P(0), P(0)])), ('same-list', '[t(0), t(0), t(1), t(0)]', ('seq', [P(0), P(0), P(1), P(0)])),
            ('same-args', 'f(t(0), t(0))', ('seq', [P(0), P(0)])), ('same-dict', '{t(0): t(0), t(1): t(0)}', ('seq', [P(0), P(0), P(1), P(0)])),
            ('same-index', 't(0)[t(0)]', ('seq', [P(0), P(0)])), ('same-not', 'not t(0) or not t(0)', ('bin', 'or', ('un', 'not', P(0)), ('un', 'not', P(0)))),
            ('same-statements', 't(0); t(0); t(0)', ('seq', [P(0), P(0), P(0)])), ('same-if-nested', '(t(0) if t(0) else t(1)) if (t(0) if t(0) else t(1)) else t(2)',
                                                                                     ('if', ('if', P(0), P(0), P(1)), ('if', P(0), P(0), P(1)), P(2))),
            ('same-pipe', 't(0) | f(t(0)) | f(t(0))', ('seq', [P(0), P(0), P(0)])), ('same-slice', 'x[t(0):t(0)]', ('seq', [P(0), P(0)])),
            ('in-list-literal', 't(0) in [t(1), t(2), t(3)]', ('seq', [P(0), P(1), P(2), P(3)])), ('not-in-list-literal', 't(0) not in [t(1), t(2), t(3)]', ('seq', [P(0), P(1), P(2), P(3)])),
            ('in-dict-literal', 't(0) in {t(1): t(2), t(3): t(4)}', ('seq', [P(0), P(1), P(2), P(3), P(4)])), ('eq-list-literal', 't(0) == [t(1), t(2)]', ('seq', [P(0), P(1), P(2)])),
            ('in-list-const-first', '1 in [1, t(0), t(1)]', ('seq', [P(0), P(1)])), ('in-str-list', '"a" in ["a", t(0)]', ('seq', [P(0)])), ('list-in-list', '[t(0)] in [[t(1)], [t(2)]]', ('seq', [P(0), P(1), P(2)])),
            ('same-minus', 't(0) - t(0)', ('seq', [P(0), P(0)])), ('same-in', 't(0) in t(0)', ('seq', [P(0), P(0)])),
        ]
        # an operation that fails (ill-typed literal operands, undefined names, a full list): nothing to its right is evaluated
        fail_chains = [
            ('[1] + 2 + t(0)', []), ('1 + "x" + t(0)', []), ('"a" - 1 - t(0)', []), ('None * 2 * t(0)', []), ('[1] / 2 / t(0)', []), ('(None < 1) == t(0)', []),
            ('t(0) + ([1] - 2) + t(1)', [0]), ('t(0) + t(1) + ([1] - 2) + t(2) + t(3)', [0, 1]), ('[1] + 2 + t(0) + t(1) + t(2)', []),
            ('t(0) + [1] + 2 + t(1)', [0]) if False else ('t(0); [1] + 2 + t(1); t(2)', [0]), ('big + big + [t(0)]', []), ('big + [1] + [t(0)] + [t(1)]', []),
            ('[t(0), [1] - 2, t(1)]', [0]), ('f(t(0), None - 1, t(1))', [0]), ('{"k": [1] - 1, "j": t(0)}', []), ('{"k": t(0), "j": None - 1, "i": t(1)}', [0]),
            ('nosuchvar + t(0)', []), ('nosuchfn() + t(0)', []), ('t(0) + nosuchvar + t(1)', [0]), ('"s" + t(0) + nosuchvar + t(1)', [0]),
            ('([1] - 2) if t(0) else t(1)', None), ('t(0) and ([1] - 2) and t(1)', None), ('x[nosuchvar][t(0)]', []), ('x[t(0)][None - 1][t(1)]', [0]),
            ('1 + 2 + 3 + "x" + t(0) + t(1)', []), ('"x" + 1 + 2 - 3 + t(0)', []), ('t(0) * 2 + "a" * "b" + t(1)', [0]), ('f(1 + "x" + t(0))', []),
            ('[1, 2] + [3] + 4 + [t(0)]', []), ('"a" + "b" + ("c" - 1) + t(0)', []),
        ]
        for text, seq in fail_chains:
            if seq is None:
                continue
            n = (max(seq) + 1) if seq else 0
            for combo in itertools.product(('truthy', 'falsy', 'raise'), repeat=n):
                val = dict(enumerate(combo))
                want = []
                raised = None
                for i in seq:
                    want.append(i)
                    if val[i] == 'raise':
                        raised = i
                        break
                log = []

                def tt(i, log=log, val=val):
                    i = int(i)
                    log.append(i)
                    if val[i] == 'raise':
                        raise ProbeRaise(i)
                    return Univ(1) if val[i] == 'truthy' else Univ(0)
                names = {'t': tt, 'f': lambda *a: Univ(1), 'x': Univ(1), 'big': [0] * 10000}
                exc = None
                try:
                    parser().eval(text, names, max_ops_evaluated=10000)
                except ProbeRaise as e:
                    exc = ('probe', e.args[0])
                except Exception as e:  # noqa
                    exc = ('other', type(e).__name__)
                res.count('evals')
                res.outcome(f'fail-chain:{text}:{len(log)}')
                w = {'shape': 'fail-chain', 'program': text, 'valuation': list(combo), 'falsy_kind': 'dec0', 'fail_chain': seq}
                if log != want:
                    res.violation(f'order:operand-evaluated-after-a-failed-operation:{text[:30]}', 'an operand to the right of an operation that fails was '
                                  'evaluated (operands are evaluated left to right, each operation applied as soon as its operands are there)',
                                  dict(w, expected=want, observed=log))
                elif raised is not None and exc != ('probe', raised):
                    res.violation(f'raise:fail-chain:{text[:30]}', 'the exception of a raising operand did not come out unchanged',
                                  dict(w, expected=f'probe {raised} raises', observed=repr(exc)))
                elif raised is None and exc is None:
                    res.count('fail_chain_did_not_fail')
            res.count('programs')
        api = snapshot.api()
        P = lambda i: ('probe', i)   # noqa
        for fname in sorted(api.FUNCTIONS):
            if fname.startswith('__') or fname in ('rand', 'shuffle'):
                continue
            for k in (1, 2, 3):
                args = ', '.join(f't({i})' for i in range(k))
                for text in (f'{fname}({args})', f't(0).{fname}(' + ', '.join(f't({i})' for i in range(1, k)) + ')'):
                    mt = ('seq', [P(i) for i in range(k)])
                    for combo in itertools.product(('truthy', 'falsy', 'raise'), repeat=k):
                        run_case(res, f'builtin:{fname}/{k}', text, mt, dict(enumerate(combo)), Univ, strict=True)
                    res.count('programs')
        # builtins on real containers: the function must not decide which arguments get evaluated
        D = api.Decimal
        extra = {'hd': {'a': D(1)}, 'hl': [D(1), D(2)], 'hs': 'abc'}
        real_calls = [
            ('get-present', 'get(hd, "a", t(0))', [P(0)]), ('get-missing', 'get(hd, "zz", t(0))', [P(0)]), ('get-method', 'hd.get("a", t(0))', [P(0)]),
            ('get-pipe', 'hd | get("a", t(0))', [P(0)]), ('get-key', 'get(hd, t(0), t(1))', [P(0), P(1)]), ('map-empty', 'map([], t(0))', [P(0)]),
            ('filter-empty', 'filter([], t(0))', [P(0)]), ('sorted-flags', 'sorted(hl, t(0), t(1))', [P(0), P(1)]), ('replace', 'replace(hs, t(0), t(1))', [P(0), P(1)]),
            ('index_of', 'index_of(hl, t(0))', [P(0)]), ('pretty', 'pretty(hl, t(0))', [P(0)]), ('join', 'join(hl, t(0))', [P(0)]),
            ('split', 'split(hs, t(0), t(1))', [P(0), P(1)]), ('pop', 'pop(hl, t(0))', [P(0)]), ('insert', 'insert(hl, t(0), t(1))', [P(0), P(1)]),
            ('round', 'round(t(0), t(1))', [P(0), P(1)]), ('min', 'min(t(0), t(1), t(2))', [P(0), P(1), P(2)]), ('dict-get-default', 'get({}, "k", t(0))', [P(0)]),
            ('if-in-arg', 'get(hd, "a", t(0) if t(1) else t(2))', [('if', P(1), P(0), P(2))]),
            ('full-list-plus', 'big + t(0)', [P(0)]), ('full-list-plus-list', 'big + [t(0)]', [P(0)]), ('full-list-compound', 'x = [1]; x += [t(0), t(1)]', [P(0), P(1)]),
            ('full-list-push', 'push(big, t(0))', [P(0)]), ('full-list-index', 'big[t(0)] = t(1)', [P(0), P(1)]), ('full-dict-index', 'bigd[t(0)] = t(1)', [P(0), P(1)]),
            ('long-args', 'f(' + ', '.join(f't({i})' for i in range(6)) + ', ' + ', '.join(str(i) for i in range(40)) + ')', [P(i) for i in range(6)]),
            # a callee that does not resolve / is not callable: its arguments are still evaluated, once, left to right, before the call fails
            ('undefined-fn', 'nosuch(t(0), t(1))', [P(0), P(1)]), ('undefined-method', 't(0).nosuch(t(1))', [P(0), P(1)]),
            ('undefined-pipe', 't(0) | nosuch(t(1), t(2))', [P(0), P(1), P(2)]), ('non-callable', 'x(t(0), t(1))', [P(0), P(1)]),
            ('undefined-in-arg', 'f(t(0), nosuch(t(1)), t(2))', [P(0), P(1)]), ('callee-bound-by-arg', 'hd2(t(0))', [P(0)]),
            ('pow-left-string', '"abc" ** t(0)', [P(0)]), ('mul-left-string', '"abc" * t(0)', [P(0)]), ('sub-left-none', 'None - t(0)', [P(0)]),
            ('div-left-list', '[1] / t(0)', [P(0)]), ('lt-left-string', '"a" < t(0)', [P(0)]), ('pow-both', 't(0) ** t(1)', [P(0), P(1)]),
            ('neg-then-pow', '(- "a") ** t(0)', []) if False else ('in-left-none', 'None in t(0)', [P(0)]),
            ('undefined-compound', 'nosuchvar += t(0)', [P(0)]), ('undefined-compound-mul', 'nosuchvar *= t(0) + t(1)', [P(0), P(1)]),
            ('missing-key-compound', 'hd["zz"] += t(0)', [P(0)]), ('missing-index-compound', 'hl[t(0)] -= t(1)', [P(0), P(1)]),
            ('undefined-index-target', 'nosuchvar[t(0)] = t(1)', [P(0), P(1)]) if False else ('compound-then-more', 'nosuchvar += t(0); t(1)', [P(0)]),
            ('long-list', '[' + ', '.join(str(i) for i in range(40)) + ', t(0), t(1)]', [P(0), P(1)]),
        ]
        for label, text, seq in real_calls:
            mt = ('seq', seq)
            n = _count(mt)
            for combo in itertools.product(('truthy', 'falsy', 'raise'), repeat=n):
                run_case(res, 'real-builtin:' + label, text, mt, dict(enumerate(combo)), Univ,
                         extra=dict(extra, hl=[D(1), D(2)], hd={'a': D(1)}, big=[0] * 10000, bigd={str(i): 0 for i in range(10000)}), strict=True)
            res.count('programs')
        for label, text, mt in hand:
            n = _count(mt)
            for combo in itertools.product(('truthy', 'falsy', 'raise'), repeat=n):
                val = dict(enumerate(combo))
                run_case(res, label, text, ('expr', mt) if mt[0] in ('bin', 'if') else mt, val, Univ)
            res.count('programs')
    return res


def _pure_lazy(t):
    """Only probes, literals, and / or / not / if-else (and the statement wrapper): truthiness is decided by the probes alone."""
    k = t[0]
    if k in ('probe', 'lit'):
        return True
    if k in ('expr', 'paren'):
        return _pure_lazy(t[1])
    if k == 'bin' and t[1] in ('and', 'or'):
        return _pure_lazy(t[2]) and _pure_lazy(t[3])
    if k == 'un' and t[1] == 'not':
        return _pure_lazy(t[2])
    if k == 'if':
        return all(_pure_lazy(x) for x in t[1:4])
    return False


def _count(t):
    if t[0] == 'probe':
        return t[1] + 1
    if t[0] == 'lit':
        return 0
    if t[0] == 'seq':
        return max([_count(x) for x in t[1]] or [0])
    m = 0
    for _, c in S.children(t):
        m = max(m, _count(c))
    return m


_orig_children = S.children


def _children_with_seq(t):
    if t[0] == 'seq':
        return [((1, i), c) for i, c in enumerate(t[1])]
    if t[0] in ('probe', 'lit'):
        return []
    return _orig_children(t)


S.children = _children_with_seq


def main(tier, seed, t0):
    b = BOUNDS[tier]
    snapshot.api()
    tasks = [('shape', label, tree, b) for label, tree in shapes()] + [('hand', b)]
    tasks = runner.rotate(tasks, seed)
    total = runner.run_tasks(work, tasks)
    n = total.n
    cov = {
        'states': n.get('programs', 0),
        'transitions': n.get('evals', 0),
        'traces_validated_against_impl': n.get('evals', 0),
        'evaluations': n.get('evals', 0),
        'distinct_nontrivial': len(total.outcomes),
        'rule': '%d construct shapes (every binary / unary operator, if-else, calls in three syntaxes with 0-3 arguments, list / dict '
                'literals, index, 7 slice shapes, 4 assignment / del statement forms with every compound operator, lambdas) x {plain probes, '
                'one nested and / or / if-else / + / call in each slot} with <= %d probes, plus 13 hand-written lambda-call / higher-order / '
                'chain programs, under ALL 3^n assignments of truthy / falsy / raises. distinct_nontrivial = distinct (shape, log length, '
                'outcome).' % (len(shapes()), b['MAXPROBES']),
        'exhaustive': True,
        'bounds': b,
    }
    return runner.finish(ID, tier, seed, total, cov, [
        'probes return instances of a Decimal subclass that accepts every operator, so operations do not fail for type reasons',
        'when an operation nevertheless fails after its operands (e.g. 0 ** 0) the log only has to be a prefix of the model sequence',
    ], t0)


def replay(w):
    """Re-executes the program under the recorded valuation with plain calls and compares the probe log with the recorded expectation."""
    api = snapshot.api()
    Univ = make_univ()
    val = dict(enumerate(w['valuation']))
    log = []

    def t(i):
        i = int(i)
        log.append(i)
        if val.get(i) == 'raise':
            raise ProbeRaise(i)
        return Univ(1) if val.get(i) == 'truthy' else falsy_object(w.get('falsy_kind', 'dec0'), Univ)
    D = api.Decimal
    names = {'t': t, 'f': lambda *a: Univ(1), 'g': lambda *a: Univ(1), 'h': lambda *a: Univ(1), 'x': Univ(1), 'hd': {'a': D(1)}, 'hl': [D(1), D(2)], 'hs': 'abc',
             'big': [0] * 10000, 'bigd': {str(i): 0 for i in range(10000)}}
    try:
        out = ('value', repr(api.new_parser().eval(w['program'], names, max_ops_evaluated=10000))[:80])
    except ProbeRaise as e:
        out = ('probe raised', e.args[0])
    except Exception as e:  # noqa
        out = ('other', type(e).__name__)
    exp = w.get('expected')
    verdict = 'REPRODUCED' if isinstance(exp, list) and log != exp else ('HOLDS' if isinstance(exp, list) else 'SEE-LOG')
    return f"{verdict}\n program {w['program']!r} valuation {w['valuation']}\n expected log {exp}\n probe log now {log} -> {out}\n recorded observation {w['observed']}"
