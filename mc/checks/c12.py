"""C12 - assignment has value semantics: stored values are independent copies.

Explicit-state BFS over histories of statements (assignments of every form from every kind of
right-hand side, and mutations through every reachable path), each history replayed on fresh
host objects; states are deduplicated on contents + alias partition.
Invariants, observed from outside (node tracer + wrapped index-assignment builtins):
  A. at every assignment node (x = e, x op= e, c[k] = e, c[k] op= e), the mutable objects newly
     reachable from the assigned slot are disjoint (by identity) from every mutable object that
     was reachable from any scope before the assignment (sharing inside the copy is allowed);
  B. x = e stores a value equal to the value of e;
  C. after every eval, the values of distinct host-mapping names share no mutable object
     (the host objects h, d, t included), i.e. no mutation through one can be seen through another;
  D. host objects change only through statements that mutate them directly (model of the host
     objects: a mutation statement whose path starts at a host name).
Each history is run in two modes: one eval call per statement, and all statements in one call.
"""
from ..core import runner, snapshot, opwrap

ID = 'C12'

BOUNDS = {
    'quick': dict(RUNS=[('small', 3), ('deep', 2)]),
    'thorough': dict(RUNS=[('full', 3), ('small', 4), ('deep', 3)]),
}

RHS = ['h', 'h[0]', '[h, h]', '{"k": h}', 'y', '[1, [2]]', 'enumerate(h)', 'items(d)', 't', 'd', 'd["k"]',
       '[d, t]', 'h[1:]', 'reversed(h)', 'sorted(d)', 'x', 'x[0]', 'values(d)', 'map(h, v => v)',
       'filter(h, v => True)', 'h if True else 0', 'get(d, "k")', 'pop(h)', '(v => v)(h)', 'z', 'he', 'hd', 'd["e"]', '[he]', 't + t',
       'h or []', 'True and h', '(h or []) if True else None', 'he or h', 'None or d', 'deepn', 'deepn[0][0]', '[deepn]', 'not he and h', 'hl']
RHS_SMALL = ['h', 'h[0]', '[h, h]', '{"k": h}', 'y', 'enumerate(h)', 'items(d)', 't', 'x[0]', 'get(d, "k")', 'z', 'he', 'hd', 'h or []',
             'True and h', 'deepn', 'x', '[x]', '{"p": z}', 'hl']


DEEPX = 1500        # nesting depth of the host list `deepx`: copying it exhausts the interpreter's recursion limit (2500 here)
_ALPHA = ['small']


def actions(alpha):
    if alpha == 'deep':
        # a value whose copy FAILS: the assignment must fail as a whole (or store an independent copy), never store a partial copy
        acts = []
        for e in ('deepx', '[deepx]', 'deepx[0]', 'h'):
            acts += [f'x = {e}', f'x[0] = {e}', f'z["k"] = {e}', f'x += {e}', f'x[0] += {e}', f'y = {e}']
        return acts + ['z = {}', 'x = [[0]]', 'x = []', 'push(x[0], 9)', 'y[0] = 7', 'push(z["k"], 9)']
    rhs = RHS if alpha == 'full' else RHS_SMALL
    acts = []
    for e in rhs:
        acts.append(f'x = {e}')
        acts.append(f'y = {e}')
        acts.append(f'x[0] = {e}')
        acts.append(f'z["k"] = {e}')
        acts.append(f'x += {e}')
        acts.append(f'x[0] += {e}')
    acts += ['z = {}', 'x = []', 'x = [[0]]', 'y = [[5]]', 'f = v => v; x = f(h)', 'x = h; y = h', 'x = h; y = x',
             'x = [h]; y = x[0]', 'y = x', 'x = y',
             # assignments made INSIDE a function body (host-defined functions with statement bodies, bound through ast_names)
             'x = af(h)', 'y = ag(h)', 'af(x)', 'x = ag(x)', 'y = map([h], af)']
    paths = ['x[70]', 'y[71]["q"]', 'hl[70]', 'x', 'x[0]', 'x[0][0]', 'y', 'y[0]', 'h', 'h[0]', 'z["k"]', 'z["k"][0]', 'd["k"]', 'x[1]', 'y[0][1]',
             't[1]', 'x[0][1]', 'he', 'hd', 'z["k"][1]']
    if alpha != 'full':
        paths = ['x[70]', 'hl[70]', 'x', 'x[0]', 'x[0][0]', 'y', 'y[0]', 'h[0]', 'z["k"]', 'd["k"]', 'x[0][1]', 't[1]', 'he', 'z["k"][1]']
    for p in paths:
        acts.append(f'push({p}, 9)')
        acts.append(f'{p}[0] = 7')
        if alpha == 'full':
            acts.append(f'pop({p})')
            acts.append(f'del {p}[0]')
            acts.append(f'{p}[0] += 1')
            acts.append(f'insert({p}, 0, [8])')
    return acts


def fresh_host():
    api = snapshot.api()
    D = api.Decimal
    h = [[D(1), D(2)], [D(3)]]
    d = {'k': [D(1)], 'm': {'n': [D(4)]}, 'e': []}
    t = ('id', [D(1), D(2)])
    deepn = [D(0)]
    for _ in range(24):
        deepn = [deepn]
    # a long host list with scalars at its head and containers in its tail (a copier that inspects only a prefix)
    longtail = [D(i) for i in range(70)] + [[D(1)], {'q': [D(2)]}]
    out = {'h': h, 'd': d, 't': t, 'he': [], 'hd': {}, 'deepn': deepn, 'hl': longtail}
    if _ALPHA[0] == 'deep':
        deepx = [D(0)]
        for _ in range(DEEPX):
            deepx = [deepx]
        out['deepx'] = deepx
    return out


def reach(v, out, keep):
    """ids of lists/dicts reachable from v (tuples are traversed)."""
    stack = [v]
    while stack:
        x = stack.pop()
        if isinstance(x, (list, dict)):
            if id(x) in out:
                continue
            out.add(id(x))
            keep.append(x)
            stack.extend(x.values() if isinstance(x, dict) else x)
        elif isinstance(x, tuple):
            stack.extend(x)


def reach_scopes(names_obj):
    out, keep = set(), []
    scopes = getattr(names_obj, 'scopes', None)
    if scopes is None:
        scopes = [names_obj]
    for sc in scopes:
        for k, v in list(sc.items()):
            if not callable(v):
                reach(v, out, keep)
    return out, keep


def _flat(v, memo, order):
    """Iterative flat serialisation (no recursion: values may be nested thousands deep). memo None: contents only."""
    out = []
    stack = [v]
    END = object()
    onpath = set()
    while stack:
        x = stack.pop()
        if isinstance(x, tuple) and len(x) == 3 and x[0] is END:
            out.append(')')
            onpath.discard(x[2])
        elif isinstance(x, tuple) and len(x) == 2 and x[0] is END:
            out.append('k:' + repr(x[1]))
        elif isinstance(x, (list, dict)):
            if id(x) in onpath:
                out.append('cycle')
                continue
            onpath.add(id(x))
            if memo is not None:
                if id(x) in memo:
                    out.append('ref%d' % memo[id(x)])
                    onpath.discard(id(x))
                    continue
                order[0] += 1
                memo[id(x)] = order[0]
                out.append(('L%d(' if isinstance(x, list) else 'D%d(') % order[0])
            else:
                out.append('L(' if isinstance(x, list) else 'D(')
            stack.append((END, None, id(x)))
            if isinstance(x, list):
                stack.extend(reversed(x))
            else:
                for k, y in reversed(list(x.items())):
                    stack.append(y)
                    stack.append((END, k))
        elif isinstance(x, tuple):
            out.append('T(')
            stack.append((END, None, None))
            stack.extend(reversed(x))
        elif callable(x):
            out.append('fn')
        else:
            out.append((type(x).__name__ if isinstance(x, bool) or x is None else 'n') + ':' + str(x))
    return out


def canon(v, memo=None, order=None):
    """Contents + aliasing: mutable objects are numbered by first visit."""
    if memo is None:
        memo, order = {}, [0]
    return ' '.join(_flat(v, memo, order))


def canon_names(names):
    memo, order = {}, [0]
    return repr([(k, canon(names[k], memo, order)) for k in sorted(names)])


def plain(v):
    """Contents only (no alias numbering) for equality of values."""
    return ' '.join(_flat(v, None, None))


class Watch:
    """Tracer implementing invariants A and B."""

    def __init__(self, res, history, mode):
        self.res = res
        self.history = history
        self.mode = mode
        self.stack = []
        self.values = {}
        self.state = None

    def enter(self, node, state):
        if _per_eval[0] and self.state is not state:
            wrap_in_scope(state, self.res)
        self.state = state
        cn = type(node).__name__
        if cn in ('AssignOp', 'ShortOp'):
            before, keep = reach_scopes(state.names)
            slot_before = set()
            try:
                cur = state.names[node.name]
                reach(cur, slot_before, keep)
            except Exception:  # noqa
                pass
            self.stack.append((node, before, keep, slot_before))

    def leave(self, node, value):
        cn = type(node).__name__
        self.values[id(node)] = value
        if cn in ('AssignOp', 'ShortOp') and self.stack and self.stack[-1][0] is node:
            _, before, keep, slot_before = self.stack.pop()
            try:
                cur = self.state.names[node.name]
            except Exception:  # noqa
                return
            after, keep2 = set(), []
            reach(cur, after, keep2)
            new = after if cn == 'AssignOp' else after - slot_before
            shared = new & before
            self.res.count('assignment_nodes_checked')
            if shared:
                form = 'name-assign' if cn == 'AssignOp' else f'name-compound{node.op}'
                self.res.violation(f'alias:{form}:{_rhs_kind(node.value)}',
                                   'the assigned variable shares a mutable object with something that existed before the assignment',
                                   {'history': self.history, 'mode': self.mode, 'statement': form, 'target': node.name,
                                    'expected': 'an independent copy', 'observed': f'{len(shared)} shared mutable object(s)'})
            if cn == 'AssignOp' and id(node.value) in self.values:
                rv = self.values[id(node.value)]
                if plain(cur) != plain(rv):
                    self.res.violation(f'copy-differs:{_rhs_kind(node.value)}', 'the stored value is not equal to the assigned value',
                                       {'history': self.history, 'mode': self.mode, 'target': node.name,
                                        'expected': repr(plain(rv)), 'observed': repr(plain(cur))})

    def fail(self, node, exc):
        if self.stack and self.stack[-1][0] is node:
            self.stack.pop()


def _rhs_kind(node):
    cn = type(node).__name__
    if cn == 'CallOp':
        return 'call:' + node.name
    if cn == 'NameOp':
        return 'name'
    return cn


_watch = [None]
_installed = [False]


def _make_wrapper(orig, fname):
    def wrapper(container, *args, _orig=orig, _fname=fname):
        w = _watch[0]
        if w is None or w.state is None:
            return _orig(container, *args)
        before, keep = reach_scopes(w.state.names)
        cont_before = set()
        reach(container, cont_before, keep)
        r = _orig(container, *args)
        after, keep2 = set(), []
        reach(container, after, keep2)
        new = after - cont_before
        shared = new & before
        # c[k] = c / [c] / {"p": c}: what is stored must be a copy, not the container itself
        try:
            stored = container[args[0]] if _fname == '__setitem__' else None
        except Exception:  # noqa
            stored = None
        if isinstance(stored, (list, dict)):
            inside = set()
            reach(stored, inside, keep2)
            if id(container) in inside:
                w.res.violation('alias:index-assign:self', 'after c[k] = e the stored value contains the container c itself',
                                {'history': w.history, 'mode': w.mode, 'statement': 'index-assign',
                                 'expected': 'an independent copy', 'observed': 'the container is reachable from its own element'})
        w.res.count('assignment_nodes_checked')
        if shared:
            form = 'index-assign' if _fname == '__setitem__' else 'index-compound' + str(args[1])
            w.res.violation(f'alias:{form}:{type(args[-1]).__name__}',
                            'the assigned container slot shares a mutable object with something that existed before the assignment',
                            {'history': w.history, 'mode': w.mode, 'statement': form,
                             'expected': 'an independent copy', 'observed': f'{len(shared)} shared mutable object(s)'})
        return r
    wrapper._c12_wrapper = True
    return wrapper


_per_eval = [False]


def install_setitem_wrappers():
    """Invariant A for index assignment: wrap the two builtins in the snapshot's FUNCTIONS; where that table is read-only,
    they are wrapped in the builtin scope of each evaluation instead (Watch.enter)."""
    if _installed[0]:
        return
    api = snapshot.api()
    for fname in ('__setitem__', '__setitem_with_op__'):
        try:
            api.FUNCTIONS[fname] = _make_wrapper(api.FUNCTIONS[fname], fname)
        except TypeError:
            _per_eval[0] = True
    _installed[0] = True


def wrap_in_scope(state, res):
    """Fallback: the outermost scope of this evaluation (the builtins) gets the wrappers."""
    try:
        sc = state.names.scopes[0]
        for fname in ('__setitem__', '__setitem_with_op__'):
            f = sc[fname]
            if not getattr(f, '_c12_wrapper', False):
                sc[fname] = _make_wrapper(f, fname)
    except Exception:  # noqa
        res.count('setitem_wrappers_unavailable')


_parser = [None]


def _reset():
    _parser[0] = None


runner.TASK_INIT.append(_reset)


def parser():
    if _parser[0] is None:
        _parser[0] = snapshot.api().new_parser()
    return _parser[0]


HOST_MUT = None
AST_FUNCTIONS = {'af': (['v'], 'tmp = v; push(tmp, 9); tmp'), 'ag': (['v'], 'tmp = [v]; tmp[0][0] = [7]; loc = {}; loc["k"] = v; push(loc["k"], 6); v')}


_astf = [None]
runner.TASK_INIT.append(lambda: _astf.__setitem__(0, None))


def ast_functions():
    if _astf[0] is None:
        _astf[0] = _build_ast_functions()
    return _astf[0]


def _build_ast_functions():
    ops = snapshot.api().ast_ops
    return {k: ops.LambdaOp(args=[ops.NameOp(a) for a in params], expr=parser().parse(body)) for k, (params, body) in AST_FUNCTIONS.items()}



def run_history(res, history, mode):
    """Replay on fresh host objects; returns canonical state (or None if the last step failed)."""
    install_setitem_wrappers()
    names = fresh_host()
    host0 = {k: names[k] for k in ('h', 'd', 't', 'he', 'hd', 'deepn', 'deepx') if k in names}
    host_expect = {k: plain(v) for k, v in host0.items()}
    w = Watch(res, history, mode)
    _watch[0] = w
    ok_last = True
    progs = history if mode == 'separate' else ['; '.join(history)]
    try:
        for prog in progs:
            before_host = {k: plain(v) for k, v in host0.items()}
            try:
                with opwrap.traced(w):
                    result = parser().eval(prog, names, ast_names=ast_functions(), max_ops_evaluated=10000)
                ok_last = True
                # what an index assignment hands back to the host must not be the stored copy itself
                import re as _re
                last = prog.split(';')[-1].strip()
                m = _re.match(r'([a-z]+)(\[[^=]*\])+ = ', last)
                rhs = last.split(' = ', 1)[1] if ' = ' in last else ''
                # (a right-hand side that reads the container itself hands back the container's own objects: not judged)
                if m and isinstance(result, (list, dict, tuple)) and m.group(1) in names and not _re.search(r'\b%s\b' % m.group(1), rhs):
                    rs, rk = set(), []
                    reach(result, rs, rk)
                    cs, ck = set(), []
                    reach(names[m.group(1)], cs, ck)
                    if rs & cs:
                        res.violation('alias:result-of-index-assignment', 'the value eval() returns for an index assignment shares a mutable object '
                                      'with the container that was assigned to: the host can change the stored value through it',
                                      {'history': history, 'mode': mode, 'statement': last, 'expected': 'no sharing with the container',
                                       'observed': 'shared mutable object'})
            except Exception:  # noqa
                ok_last = False
            res.count('evals')
            # invariant D: host objects only change through direct mutation statements
            if mode == 'separate':
                direct = _mutates_host_directly(prog)
                for k, v in host0.items():
                    if plain(v) != before_host[k] and k not in direct:
                        res.violation(f'host-changed:{_stmt_kind(prog)}', 'a host-supplied object changed although no mutating operation was applied to it',
                                      {'history': history, 'mode': mode, 'statement': prog, 'host_object': k,
                                       'expected': repr(before_host[k]), 'observed': repr(plain(v))})
            # invariant C: pairwise disjoint roots
            roots = {}
            for k in sorted(names):
                if callable(names[k]):
                    continue
                s, keep = set(), []
                reach(names[k], s, keep)
                roots[k] = (s, keep)
            ks = sorted(roots)
            for i in range(len(ks)):
                for j in range(i + 1, len(ks)):
                    if roots[ks[i]][0] & roots[ks[j]][0]:
                        res.violation(f'shared-roots:{_stmt_kind(prog)}', 'two variables / host objects share a mutable object after the statement',
                                      {'history': history, 'mode': mode, 'statement': prog, 'names': [ks[i], ks[j]],
                                       'expected': 'no sharing between distinct names', 'observed': 'shared mutable object'})
    finally:
        _watch[0] = None
    return canon_names(names), ok_last


def _stmt_kind(prog):
    import re
    s = re.sub(r'\b(h|d|t|x|y|z)\b', 'N', prog)
    return s[:40]


def _mutates_host_directly(prog):
    """Host names whose object a statement of prog mutates by a direct mutating operation."""
    import re
    out = set()
    for st in prog.split(';'):
        st = st.strip()
        m = re.match(r'(push|pop|insert|remove)\((he|hd|h|d|t)\b', st)
        if m:
            out.add(m.group(2))
        m = re.match(r'(del\s+)?(he|hd|h|d|t)\b(\[[^=]*\])+\s*(=|\+=|-=|\*=|/=|$)', st)
        if m and (m.group(1) or m.group(4)):
            out.add(m.group(2))
        m = re.search(r'=\s*pop\((he|hd|h|d|t)\b', st)
        if m:
            out.add(m.group(1))
        if re.search(r'\bpop\((he|hd|h|d|t)\b', st):
            out.add(re.search(r'\bpop\((he|hd|h|d|t)\b', st).group(1))
    return out


def work(task):
    hists, alpha = task
    res = runner.Result()
    import sys
    _ALPHA[0] = alpha
    sys.setrecursionlimit(2500 if alpha == 'deep' else 5000)
    acts = actions(alpha)
    for hist in hists:
        for a in acts:
            h2 = list(hist) + [a]
            st, ok = run_history(res, h2, 'separate')
            res.count('transitions')
            if len(h2) > 1:
                run_history(res, h2, 'one-call')
                res.count('transitions')
            res.outcome(st)
            if ok:
                res.bag.add((st, tuple(h2)))
    return res


def main(tier, seed, t0):
    b = BOUNDS[tier]
    snapshot.api()
    opwrap.install()
    total = runner.Result()
    seen = {}
    depth = 0
    frontier = []
    for alpha, maxdepth in b['RUNS']:
        seen_run = {}
        frontier = [()]
        depth = 0
        while frontier and depth < maxdepth:
            depth += 1
            n = max(1, len(frontier) // 64 + 1)
            tasks = [(frontier[i:i + n], alpha) for i in range(0, len(frontier), n)]
            tasks = runner.rotate(tasks, seed)
            r = runner.run_tasks(work, tasks, selftest=(depth <= 2))
            new = []
            for st, hist in sorted(r.bag, key=lambda x: (x[1], x[0])):
                if st not in seen_run:
                    seen_run[st] = hist
                    new.append(hist)
            r.bag = set()
            total.merge(r)
            frontier = new
            if depth == 2 and new:
                total.sample({'history': list(new[len(new) // 2]), 'modes': ['one eval per statement', 'all statements in one eval']})
        seen.update(seen_run)
    n = total.n
    if not n.get('assignment_nodes_checked'):
        print('INTERNAL-ERROR: no assignment node was observed (vacuous)')
        return 2
    cov = {
        'states': len(seen),
        'transitions': n.get('transitions', 0),
        'traces_validated_against_impl': n.get('evals', 0),
        'evaluations': n.get('evals', 0),
        'distinct_nontrivial': len(total.outcomes),
        'rule': 'BFS runs %s (alphabet, depth): the small alphabet has %d statements (every assignment form x %d right-hand sides incl. host '
                'list / dict / tuple / empty containers, builtin results; mutations through reachable paths), the full one %d statements x '
                '%d right-hand sides; each history replayed on fresh host objects in two modes; states deduplicated on contents + alias '
                'partition; distinct_nontrivial = distinct canonical states produced.'
                % (b['RUNS'], len(actions('small')), len(RHS_SMALL), len(actions('full')), len(RHS)),
        'exhaustive': True,
        'frontier_exhausted': not frontier,
        'max_depth': depth,
        'bounds': b,
    }
    return runner.finish(ID, tier, seed, total, cov, [
        'identity-disjointness of mutable objects is equivalent to "no mutation through one is visible through the other" for '
        'lists / dicts / tuples of plain data',
        'sharing inside one stored value (x = [h, h]) is allowed',
    ], t0)


def replay(w):
    res = runner.Result()
    opwrap.install()
    import sys
    deep = any('deepx' in st for st in w['history'])
    _ALPHA[0] = 'deep' if deep else 'small'
    sys.setrecursionlimit(2500 if deep else 5000)
    run_history(res, list(w['history']), w.get('mode', 'separate'))
    return ('REPRODUCED' if res.viol else 'HOLDS') + f"\n history={w['history']!r} mode={w.get('mode')}\n " + \
        repr({k: v[0] for k, v in res.viol.items()})
