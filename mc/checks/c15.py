"""C15 - insignificant surface syntax never changes the parsed program.

For every sentence with <= N nodes (faithful minimal-parenthesis rendering found with the
reference parser) every single rewrite at every applicable position, and every pair of
rewrites for sentences with <= NP nodes:
  gap     extra blanks / tabs in every token gap
  nl      LF, CRLF, blank line, comment + LF in every gap that is inside brackets
  cmt     trailing comment, comment-only lines
  sep     `;` / LF / CRLF between statements, blank statements before / between / after
  comma   trailing comma in every non-empty call / method / pipe call / list / dict
  paren   redundant parentheses around every operand (composite or leaf)
  form    r.f(a) / r | f(a) / f(r, a)   and   r | f / r.f() / f(r)
Oracle: real parse of the rewritten text == reference tree of the original.
"""
from ..core import runner, e1, snapshot
from ..model import refparse, reflex
from ..spaces import sentences as S

ID = 'C15'

BOUNDS = {
    'quick': dict(N=2, NP=1, NFULL=1),
    'thorough': dict(N=2, NP=2, NFULL=2),
}

GAP_ANY = ['  ', '\t', ' \t ']
GAP_IN = ['\n', '\r\n', ' # c\n', '\n\n', ' \r\n ']
SEPS = [';', '\r\n', ' ; ', '\n\n', ';\n', '\n;\n', ' # c\n', ';;', '\r\n\r\n']
LEAD = ['\n', ';', ' ', '# c\n', '\r\n', '\n\n']
TRAIL = ['\n', ';', ' ', ' # c', '\r\n', ';\n', '\t']


POISON = ['f ( 1 ,', '( [ {', 'a )', '1 ]', '"s" 2', '{ 1 : ( 2']


def leaf_slots(t, path=()):
    out = []
    for p, child in S.children(t):
        if child[0] == 'leaf':
            out.append(path + (p,))
        else:
            out.extend(leaf_slots(child, path + (p,)))
    return out


def get_at(t, path):
    for p in path:
        t = dict(S.children(t))[p]
    return t


def replace_at(t, path, new):
    if not path:
        return new
    p = path[0]
    k = t[0]
    lst = list(t)

    def rep(child):
        return replace_at(child, path[1:], new)

    # locate slot p in t's structure (mirror of S.children)
    if isinstance(p, tuple):
        if k == 'call':
            args = list(t[2]); args[p[1]] = rep(args[p[1]]); lst[2] = args
        elif k in ('meth', 'pipe', 'slice'):
            args = list(t[3]); args[p[1]] = rep(args[p[1]]); lst[3] = args
        elif k == 'list':
            args = list(t[1]); args[p[1]] = rep(args[p[1]]); lst[1] = args
        elif k == 'dict':
            items = [list(x) for x in t[1]]
            items[p[1]][p[2]] = rep(items[p[1]][p[2]])
            lst[1] = [tuple(x) for x in items]
        else:
            raise ValueError(k)
    else:
        lst[p] = rep(t[p])
    return tuple(lst)


def _replace_at_marker(tree, slot, marker):
    return replace_at(tree, slot, ('leaf', marker, None))


def call_nodes(t, path=()):
    out = []
    if t[0] in ('meth', 'pipe') or (t[0] == 'call' and t[2]):
        out.append(path)
    for p, child in S.children(t):
        out.extend(call_nodes(child, path + (p,)))
    return out


def alt_forms(node):
    """Other spellings of the same call."""
    k = node[0]
    if k == 'call':
        f, recv, args = node[1], node[2][0], list(node[2][1:])
    elif k == 'meth':
        f, recv, args = node[1], node[2], list(node[3])
    else:
        f, recv, args = node[1], node[2], list(node[3] or [])
    forms = [('call', f, [recv] + args), ('meth', f, recv, args),
             ('pipe', f, recv, args if args else None)]
    return [x for x in forms if x[0] != k]


def faithful(tree, want):
    """Smallest set of parenthesised composite slots whose rendering the reference parser
    reads back as `want`; None if there is none (ungrammatical skeleton)."""
    slots = S.composite_slots(tree)
    best = None
    for par in sorted(S.subsets(slots), key=len):
        text = ' '.join(S.render(tree, par))
        m = refparse.parse(text)
        if m[0] == 'ok' and m[1] == ('code', [want]):
            best = par
            break
    return best


def assemble(toks, gaps, lead='', trail=''):
    out = [lead]
    for i, t in enumerate(toks):
        if i:
            out.append(gaps.get(i, ' '))
        out.append(t)
    out.append(trail)
    return ''.join(out)


def depths(toks):
    """depth[i] = bracket depth of the gap before token i (i >= 1)."""
    d = 0
    out = [0] * (len(toks) + 1)
    for i, t in enumerate(toks):
        if t in (')', ']', '}'):
            d -= 1
        out[i] = d if t in (')', ']', '}') else out[i]
        if i:
            pass
        if t in ('(', '[', '{'):
            d += 1
        out[i + 1] = d
    # gap before token i lies at depth after token i-1 ... but before a closer it is still inside
    res = [0] * (len(toks) + 1)
    d = 0
    for i, t in enumerate(toks):
        res[i] = d
        if t in ('(', '[', '{'):
            d += 1
        elif t in (')', ']', '}'):
            d -= 1
    res[len(toks)] = d
    return res


def gap_edits(toks, full=True):
    """All single gap edits: list of (label, gap_index, string)."""
    dep = depths(toks)
    out = []
    for i in range(1, len(toks)):
        for s in (GAP_ANY if full else GAP_ANY[1:2]):
            out.append(('gap', i, s))
        if dep[i] > 0:
            for s in (GAP_IN if full else GAP_IN[:3]):
                out.append(('nl', i, s))
    return out


_base = [None]
_sep_memo = {}


def _separable(a, b):
    k = (a, b)
    if k not in _sep_memo:
        try:
            ta, tb, tab = reflex.tokens(a), reflex.tokens(b), reflex.tokens(a + b)
            _sep_memo[k] = len(ta) == 1 and len(tb) == 1 and [t[:2] for t in tab] == [ta[0][:2], tb[0][:2]]
        except reflex.LexError:
            _sep_memo[k] = False
    return _sep_memo[k]


def check(res, text, expected, family, toks, at, base_text):
    R = e1.get_real()
    r = R.parse(text)
    res.count('rewritten_texts')
    res.count('fam_' + family.split(':')[0])
    if r[0] == 'ok' and r[1] == expected:
        if family == 'base':
            _base[0] = (expected, e1.realmod.full_dump(R.last_tree))
        elif _base[0] is not None and _base[0][0] is expected:
            # same neutral tree: the nodes must also agree in every attribute (fields excluded from == included)
            d2 = e1.realmod.full_dump(R.last_tree)
            if d2 != _base[0][1]:
                res.violation(f'{family.split(":")[0]}:node-attributes', f'insignificant rewrite ({family}) changes attributes of the tree nodes '
                              '(the trees compare equal)', {'original': base_text, 'rewritten': text, 'expected': repr(_base[0][1])[:300],
                                                            'observed': repr(d2)[:300]})
                return False
        root = expected[1][0] if expected[0] == 'code' and expected[1] else expected
        res.outcome('%s:%s:%s' % (family.split(':')[0], root[0], root[2][0] if len(root) > 2 and isinstance(root[2], tuple) else ''))
        return True
    a = toks[at - 1] if at is not None and 0 < at <= len(toks) else '^'
    b = toks[at] if at is not None and at < len(toks) else '$'
    ctx = f'{_ttype(a)}_{_ttype(b)}' if at is not None else ''
    kind = 'rejected' if r[0] != 'ok' else 'tree'
    res.violation(f'{family}:{kind}:{ctx}', f'insignificant rewrite ({family}) changes the parsed program',
                  {'original': base_text, 'rewritten': text, 'expected': repr(expected),
                   'observed': repr(r[1]) if r[0] == 'ok' else f'{r[0]}: {r[-1]!r}'})
    return False


def _ttype(tok):
    if tok in ('^', '$'):
        return tok
    try:
        t = reflex.tokens(tok)
        return t[0][0] if t else 'BLANK'
    except reflex.LexError:
        return '?'


def structural_variants(tree, par0, want):
    """Single structural edits: (label, tree', parens', trailing', at-token-hint)."""
    out = []
    for path in S.comma_nodes(tree):
        out.append(('comma', tree, par0, frozenset([path])))
    for slot in S.composite_slots(tree) + leaf_slots(tree):
        if slot not in par0:
            out.append(('paren', tree, par0 | {slot}, frozenset()))
    for path in call_nodes(tree):
        node = get_at(tree, path)
        for alt in alt_forms(node):
            t2 = replace_at(tree, path, alt)
            p2 = faithful(t2, want)
            if p2 is not None:
                out.append((f'form:{node[0]}->{alt[0]}', t2, p2, frozenset()))
    return out


def explore_sentence(res, tree, idx, pairs, partner_toks, full=True):
    want = S.to_neutral(tree)
    if 'ungrammatical' in repr(want):
        res.count('skipped_ungrammatical')
        return
    par0 = faithful(tree, want)
    if par0 is None:
        res.count('skipped_no_faithful_rendering')
        return
    expected = ('code', [want])
    base = S.render(tree, par0)
    base_text = ' '.join(base)
    res.count('sentences')
    res.state(base_text)
    # the parser instance has a history: an earlier, rejected, bracket-unbalanced text (alternating kinds)
    e1.get_real().parse(POISON[idx % len(POISON)])
    if not check(res, base_text, expected, 'base', base, None, base_text):
        return
    res.sample({'original': base_text, 'example_rewrite': assemble(base, {1: '\t'}, trail=' # c')}, cap=2)
    # --- gap / newline edits
    g_edits = gap_edits(base, full)
    for fam, i, s in g_edits:
        check(res, assemble(base, {i: s}), expected, f'{fam}:{s!r}', base, i, base_text)
    # --- tight: blanks that separate nothing may also be ABSENT (a gap is removable when the reference lexer splits the
    #     concatenation of its two neighbours into exactly those two tokens)
    tight = {}
    for i in range(1, len(base)):
        if _separable(base[i - 1], base[i]):
            tight[i] = ''
            check(res, assemble(base, {i: ''}), expected, "tight:''", base, i, base_text)
    if len(tight) > 1:
        check(res, assemble(base, tight), expected, "tight:all", base, min(tight), base_text)
    for s in (LEAD if full else LEAD[:2]):
        check(res, assemble(base, {}, lead=s), expected, f'sep-lead:{s!r}', base, 0, base_text)
    for s in (TRAIL if full else TRAIL[:2]):
        check(res, assemble(base, {}, trail=s), expected, f'sep-trail:{s!r}', base, len(base), base_text)
    # --- structural edits
    s_vars = structural_variants(tree, par0, want)
    for label, t2, p2, tr2 in s_vars:
        toks2 = S.render(t2, p2, trailing=tr2)
        at = _first_diff(base, toks2)
        check(res, ' '.join(toks2), expected, label, toks2, at, base_text)
    # --- two statements: separators and blank statements
    if partner_toks is not None:
        ptoks, pwant = partner_toks
        for order in (0, 1):
            first, second = (base, ptoks) if order == 0 else (ptoks, base)
            exp2 = ('code', [want, pwant] if order == 0 else [pwant, want])
            for sep in ['\n'] + (SEPS if full else SEPS[:3]):
                text = ' '.join(first) + sep + ' '.join(second)
                check(res, text, exp2, f'sep:{sep!r}', first, len(first), ' '.join(first) + '\n' + ' '.join(second))
    # --- depth: many redundant parenthesis pairs around one operand, also inside brackets and spread over lines
    if idx % 31 == 0:
        for slot in (S.composite_slots(tree) + leaf_slots(tree))[:3]:
            sub = ' '.join(S.render(get_at(tree, slot), frozenset(p[len(slot):] for p in par0 if p[:len(slot)] == slot and len(p) > len(slot))))
            for k in (3, 33, 70):
                for opener, closer in (('( ', ' )'), ('(\n', '\n)'), ('( # c\n', ' )')):
                    wrapped = opener * k + sub + closer * k
                    marker = '\x00SLOT\x00'
                    toks = S.render(_replace_at_marker(tree, slot, marker), par0 - {slot})
                    text = ' '.join(toks).replace(marker, wrapped)
                    check(res, text, expected, f'deep-paren:{k}', base, None, base_text)
    if not pairs:
        return
    # --- pairs of rewrites
    for a in range(len(g_edits)):
        fa, ia, sa = g_edits[a]
        for b in range(a + 1, len(g_edits)):
            fb, ib, sb = g_edits[b]
            if ia == ib:
                continue
            check(res, assemble(base, {ia: sa, ib: sb}), expected, f'pair:{fa}+{fb}', base, ib, base_text)
        for s in TRAIL[:4]:
            check(res, assemble(base, {ia: sa}, trail=s), expected, f'pair:{fa}+trail', base, ia, base_text)
    for label, t2, p2, tr2 in s_vars:
        toks2 = S.render(t2, p2, trailing=tr2)
        for fam, i, s in gap_edits(toks2):
            check(res, assemble(toks2, {i: s}), expected, f'pair:{label.split(":")[0]}+{fam}', toks2, i, base_text)
        # two structural edits
        want2 = want
        for label3, t3, p3, tr3 in structural_variants(t2, p2, want2):
            toks3 = S.render(t3, p3, trailing=tr2 | tr3)
            check(res, ' '.join(toks3), expected, f'pair:{label.split(":")[0]}+{label3.split(":")[0]}', toks3,
                  _first_diff(toks2, toks3), base_text)


def _first_diff(a, b):
    i = 0
    while i < len(a) and i < len(b) and a[i] == b[i]:
        i += 1
    return i


_sk = {}


def _skeletons(n):
    if n not in _sk:
        _sk[n] = list(S.gen_statements(n, S.constructors()))
    return _sk[n]


def _nodes(sk):
    def cnt(k):
        return 0 if k[0] == 'L' else 1 + sum(cnt(c) for c in k[2])
    return sum(cnt(k) for k in sk[1])


def work(task):
    _, n, lo, hi, npairs, nfull = task
    res = runner.Result()
    cs = S.constructors()
    sks = _skeletons(n)
    for idx in range(lo, hi):
        tree = S.build_statement(sks[idx], cs, S.LeafSupply(idx))
        # partner: a deterministic other statement with a faithful rendering
        partner = None
        for k in range(1, 6):
            pt = S.build_statement(sks[(idx * 31 + k * 17) % len(sks)], cs, S.LeafSupply(k))
            pw = S.to_neutral(pt)
            if 'ungrammatical' in repr(pw):
                continue
            pp = faithful(pt, pw)
            if pp is not None:
                partner = (S.render(pt, pp), pw)
                break
        explore_sentence(res, tree, idx, _nodes(sks[idx]) <= npairs, partner, _nodes(sks[idx]) <= nfull)
        if _nodes(sks[idx]) == 0:
            # statements made of leaves only: every leaf spelling (keywords, numbers, strings, %names%) in every position
            for start in range(1, len(S.LEAVES)):
                t2 = S.build_statement(sks[idx], cs, S.LeafSupply(idx + start))
                explore_sentence(res, t2, idx + start, True, partner, True)
    return res


def main(tier, seed, t0):
    b = BOUNDS[tier]
    snapshot.api()
    e1.get_real()
    nsk = len(_skeletons(b['N']))
    step = max(1, nsk // 512)
    tasks = [('sent', b['N'], lo, min(nsk, lo + step), b['NP'], b['NFULL']) for lo in range(0, nsk, step)]
    tasks = runner.rotate(tasks, seed)
    total = runner.run_tasks(work, tasks)
    n = total.n
    fams = {k[4:]: v for k, v in n.items() if k.startswith('fam_')}
    for need in ('gap', 'nl', 'sep', 'comma', 'paren', 'form', 'pair'):
        if not any(k.startswith(need) for k in fams):
            print(f'INTERNAL-ERROR: rewrite family {need} never applied (vacuous)')
            return 2
    cov = {
        'states': len(total.states),
        'transitions': n.get('rewritten_texts', 0),
        'traces_validated_against_impl': n.get('rewritten_texts', 0),
        'evaluations': n.get('rewritten_texts', 0),
        'distinct_nontrivial': len(total.states),
        'rule': 'every statement with <= %d nodes that has a faithful rendering, x every single rewrite at every position '
                '(families: gap, nl-in-brackets, lead/trail, separators with a partner statement, trailing comma, redundant '
                'parentheses around composite and leaf operands, call-form interchange); all pairs of rewrites for statements '
                'with <= %d nodes; statements with more than %d nodes use the reduced variant lists (one blank variant, LF / CRLF / '
                'comment+LF inside brackets, two lead/trail variants, three separators). distinct_nontrivial = distinct base '
                'sentences.' % (b['N'], b['NP'], b['NFULL']),
        'exhaustive': True,
        'bounds': b,
        'rewrites_by_family': fams,
    }
    return runner.finish(ID, tier, seed, total, cov, [
        'the tree of the original is given by the reference parser and equals the generating sentence',
        'rewrites only ever ADD layout / commas / parentheses or change the call spelling; token-merging removals are not rewrites',
    ], t0)


def replay(w):
    R = e1.get_real()
    a = R.parse(w['original'])
    da = e1.realmod.full_dump(R.last_tree) if a[0] == 'ok' else None
    b = R.parse(w['rewritten'])
    db = e1.realmod.full_dump(R.last_tree) if b[0] == 'ok' else None
    same = a[0] == 'ok' and b[0] == 'ok' and a[1] == b[1] and da == db
    if 'sep' in w.get('family', '') or '\n' in w['original']:
        pass
    return ('HOLDS' if same else 'REPRODUCED') + f"\n original={w['original']!r} -> {a[:2]!r}\n rewritten={w['rewritten']!r} -> {b[:2]!r}"
