"""C01 - the op budget is enforced exactly, on every evaluation path.

Programs: (a) every construct shape of C09 with probes at the leaves (all 13 node kinds; NoOp via
ast_names), (b) hand-written drivers: lambdas called directly, recursively, through map / filter /
reduce / sorted(key), through the re-entrant host callback apply(f, v) and the error-swallowing
swallow(f, v), multi-statement bodies and lambdas supplied through ast_names.
For each program: K = number of node evaluations of the unbounded run, counted from outside by the
tracer; then EVERY budget N in 1..K+2 and two large ones.
Oracle: the charged counter equals K; N > K: identical value, names and effects; N <= K: the
ops-limit ParserError, exactly N node evaluations entered, and the effect log equals the effects of
the unbounded run that happened before the N-th entry (for swallow drivers: no effect after it).
Histories: all sequences of <= 3 eval calls over one shared names mapping (define f with three
bodies, call f, map with f, redefine, read), every call with budgets K-1, K, K+1 of ITS OWN count.
"""
import itertools

import sys
import threading

from ..core import runner, snapshot, opwrap
from ..model import refparse, refeval as M
from . import c07, c09

ID = 'C01'

BOUNDS = {
    'quick': dict(SHAPES='nested', HIST=2),
    'thorough': dict(SHAPES='nested', HIST=3),
}

BIG = [10 ** 6, 2 ** 40]
CONSTS40 = ', '.join(str(i) for i in range(40))


class Count:
    def __init__(self):
        self.entered = 0
        self.states = []
        self.frames = [[None]]      # one entry per eval() in progress (outermost first): the VM state its first node was given
        self.foreign = 0            # node evaluations under a VM state that is not the one of the innermost eval in progress

    def enter(self, node, state):
        self.entered += 1
        top = self.frames[-1]
        if top[0] is None:
            top[0] = state
        elif top[0] is not state:
            self.foreign += 1
        if not self.states or self.states[-1] is not state:
            if all(s is not state for s in self.states):
                self.states.append(state)

    def leave(self, node, value):
        pass

    def fail(self, node, exc):
        pass


_parser = [None, None]


def _reset():
    _parser[0] = None
    _parser[1] = None


runner.TASK_INIT.append(_reset)


def parser(cached=False):
    if cached:
        if _parser[1] is None:
            _parser[1] = snapshot.api().new_parser(parse_cache={})
        return _parser[1]
    if _parser[0] is None:
        _parser[0] = snapshot.api().new_parser()
    return _parser[0]


def host_names(log, cnt):
    api = snapshot.api()
    D = api.Decimal

    def t(i=0):
        log.append((int(i), cnt.entered))
        return D(int(i))

    def apply(f, v):
        log.append(('apply', cnt.entered))
        return f(v)

    def swallow(f, v):
        try:
            return f(v)
        except api.ParserError:
            log.append(('swallowed', cnt.entered))
            return D(-1)
    return {'t': t, 'apply': apply, 'swallow': swallow, 'f': lambda *a: D(1), 'g': lambda *a: D(1), 'h': lambda *a: D(1),
            'x': D(1), 'l': [D(1), D(2), D(3)], 'd': {'a': D(1), 'b': D(2)}, 'n': D(3)}


def run(text, budget, ast_names_spec=None, cached=False):
    """-> (outcome, value, names_view, effect_log, entries, charged)"""
    api = snapshot.api()
    cnt = Count()
    log = []
    names = host_names(log, cnt)
    kw = {}
    if ast_names_spec:
        kw['ast_names'] = build_ast_names(ast_names_spec)
    try:
        with opwrap.traced(cnt):
            v = parser(cached).eval(text, names, max_ops_evaluated=budget, **kw)
        out = 'ok'
    except api.OpsLimit:
        out, v = 'limit', None
    except api.ParserError as e:
        out, v = 'ParserError', str(e)
    except Exception as e:  # noqa
        out, v = 'other:' + type(e).__name__, None
    charged = [s.ops_evaluated for s in cnt.states]
    return out, _plain(v), _plain({k: w for k, w in names.items() if not callable(w)}), log, cnt.entered, charged


def _strip(names):
    return names


def _plain(v):
    if isinstance(v, (list, tuple)):
        return [type(v).__name__] + [_plain(x) for x in v]
    if isinstance(v, dict):
        return ['dict'] + [(k, _plain(x)) for k, x in v.items()]
    if callable(v):
        return 'fn'
    return f'{type(v).__name__}:{v}'


def build_ast_names(spec):
    api = snapshot.api()
    ops = api.ast_ops
    out = {}
    for name, (kind, params, body) in spec.items():
        if kind == 'noop':
            out[name] = ops.NoOp()
        elif kind == 'value':
            out[name] = ops.ValueOp(api.Decimal(body))
        else:
            tree = parser().parse(body)
            out[name] = ops.LambdaOp(args=[ops.NameOp(p) for p in params], expr=tree)
    return out


DRIVERS = [
    # (label, program, ast_names spec, swallow?)
    ('direct', 'q = v => t(v) + v; q(1) + q(2)', None, False),
    ('recursive', 'r = k => 0 if k < 1 else t(k) + r(k - 1); r(3)', None, False),
    ('deep-recursion', 'down = k => 0 if k < 1 else down(k - 1) + 1; down(130)', None, False),
    ('deep-recursion-map', 'dm = k => [0] if k < 1 else map(dm(k - 1), v => v + 1); dm(110)', None, False),
    ('map', 'map(l, v => t(v) * 2)', None, False),
    ('filter', 'filter(l, v => t(v) > 1)', None, False),
    ('reduce', 'reduce(l, (a, b) => a + t(b))', None, False),
    ('sorted-key', 'sorted(l, v => 0 - t(v))', None, False),
    ('map-dict', 'map(d, (k, v) => t(v))', None, False),
    ('map-str', 'map("abc", c => t(1))', None, False),
    ('apply', 'q = v => t(v) + 1; apply(q, 1) + apply(q, 2)', None, False),
    ('apply-nested', 'q = v => t(v); p = v => apply(q, v) + apply(q, v + 1); apply(p, 1)', None, False),
    ('swallow', 'q = v => t(v) + t(v + 1) + t(v + 2); swallow(q, 1); t(9); swallow(q, 4); t(8)', None, True),
    ('swallow-last', 'q = v => t(v) + t(v + 1); t(0); swallow(q, 1)', None, True),
    ('swallow-map', 'q = v => map(l, w => t(w)); swallow(q, 1); t(7)', None, True),
    ('statements', 'a = t(1); b = [a, t(2)]; b[0] += t(3); c = {"k": t(4)}; c["k"] -= 1; del b[1]; a if t(5) else t(6)', None, False),
    ('slices', 'l[t(0):t(2)]; l[::t(1)]; l[t(1):]; l[:t(2):]; "abc"[t(1)]', None, False),
    ('lazy', 't(0) and t(1) or t(2); not t(0) or t(3); t(1) if t(0) else t(2)', None, False),
    ('short-ops', 'y = t(1); y += t(2); y -= t(3); y *= t(4); y /= t(5); y', None, False),
    ('dict-literal', '{"a": t(1), t(2): [t(3), {"b": t(4)}]}', None, False),
    ('method-pipe', 'l.map(v => t(v)) | filter(v => v > 1) | len', None, False),
    ('ast-lambda', 'g2(1) + g2(2)', {'g2': ('lambda', ['v'], 't(v); v + 1')}, False),
    ('ast-lambda-map', 'map(l, g2)', {'g2': ('lambda', ['v'], 'w = t(v); w * 2')}, False),
    ('ast-noop', 'n0; t(1)', {'n0': ('noop', None, None)}, False),
    ('ast-two', 'g2(g3(1))', {'g2': ('lambda', ['v'], 't(v)'), 'g3': ('lambda', ['v'], 't(v) + 1'), 'c0': ('value', None, '5')}, False),
    ('ast-apply', 'apply(g2, 1) + swallow(g2, 2)', {'g2': ('lambda', ['v'], 't(v); t(v + 1); v')}, True),
    ('const-lambda-map', 'map(l, v => 0)', None, False),
    ('const-lambda-sorted', 'sorted(l, k => 1)', None, False),
    ('const-lambda-reduce', 'reduce(l, (a, b) => 0)', None, False),
    ('const-lambda-call', 'q = v => None; q(1); q(2); w = v => "s"; w(0)', None, False),
    ('const-lambda-filter', 'filter(l, v => True) + filter(l, v => False)', None, False),
    ('filter-budget', 'l | filter(v => v > 1)', None, False),
    ('long-list-40', '[%s]' % CONSTS40, None, False),
    ('long-args-40', 'list(%s)' % CONSTS40, None, False),
    ('long-host-args', 't(1); f(%s); t(2)' % CONSTS40, None, False),
    ('long-dict-40', '{' + ', '.join('"k%d": %d' % (i, i) for i in range(40)) + '}', None, False),
    ('long-strings-40', '[' + ', '.join('"s%d"' % i for i in range(40)) + '] | len', None, False),
    ('long-program', '; '.join('v%d = %d' % (i, i) for i in range(40)) + '; v39', None, False),
    ('deep-nesting', '[' * 12 + '1' + ']' * 12, None, False),
    ('many-params', 'q = (a, b, c, d, e, g, h, i) => a + i; q(1, 2, 3, 4, 5, 6, 7, 8)', None, False),
    ('empty', '', None, False),
    ('comment', '# nothing', None, False),
    ('blank-lines', '\n\nt(1)\n\n', None, False),
]


def sweep(res, label, text, ast_spec, swallow, cached=False):
    api = snapshot.api()
    base = run(text, 10 ** 9, ast_spec, cached)
    out0, v0, n0, log0, K, charged0 = base
    res.count('programs')
    if out0 == 'limit':
        res.violation(f'limit-error-below-budget:{label}', 'the ops-limit error was raised although far fewer operations than the budget were started',
                      {'program': text, 'budget': 10 ** 9, 'expected': 'no ops-limit error', 'observed': f'ops-limit error after {K} node evaluations'})
        return
    if out0 not in ('ok',) and not out0.startswith('other') and out0 != 'ParserError':
        res.count('unbounded_run_failed')
        return
    w = {'program': text, 'ast_names': repr(ast_spec) if ast_spec else None}
    if sum(charged0) != K or len(charged0) > 1:
        res.violation(f'charged:{label}', 'the number of operations charged differs from the number of node evaluations performed',
                      dict(w, budget='unbounded', expected=f'{K} charged to one VM state', observed=f'charged {charged0}'))
    res.outcome(f'{label}:K={K}')
    # where the reference interpreter defines the program (no host callbacks), its operation count is the yardstick:
    # an evaluation that is skipped altogether (a "free" lambda body) is invisible to the tracer but not to the model
    if not ast_spec and not any(x in text for x in ('t(', 'apply(', 'swallow(')):
        m = refparse.parse(text)
        if m[0] == 'ok':
            D = M.Num.of_int
            mach = M.Machine({'x': D(1), 'l': [D(1), D(2), D(3)], 'd': {'a': D(1), 'b': D(2)}, 'n': D(3)}, known_builtins=list(api.FUNCTIONS))
            try:
                mach.run(m[1])
                res.count('model_counts_compared')
                if mach.ops != K:
                    res.violation(f'model-count:{label}', 'the evaluation performs fewer / more node evaluations than the semantics prescribe '
                                  '(work done outside the counter)', dict(w, budget='unbounded', expected=f'{mach.ops} operations', observed=f'{K}'))
            except Exception:  # noqa - undefined by the model
                pass
    for N in list(range(1, K + 3)) + BIG:
        out, v, n, log, entered, charged = run(text, N, ast_spec, cached)
        res.count('evals')
        ww = dict(w, budget=N, K=K)
        want_log = [e for e in log0 if e[1] < N]
        if N > K:
            if (out, v, n, log) != (out0, v0, n0, log0):
                res.violation(f'larger-budget-differs:{label}', 'a run with a budget above the need differs from the unbounded run',
                              dict(ww, expected=repr((out0, v0, log0))[:300], observed=repr((out, v, log))[:300]))
            continue
        if swallow:
            eff = [e for e in log if e[0] != 'swallowed']
            eff0 = [e for e in want_log if e[0] != 'swallowed']
            if eff != eff0:
                res.violation(f'effects-after-limit:{label}', 'host-visible effects occurred after the operation at which the budget ran out',
                              dict(ww, expected=repr(eff0), observed=repr(eff)))
            continue
        if out != 'limit':
            res.violation(f'no-limit-error:{label}', 'a run that needs at least N operations did not raise the ops-limit error',
                          dict(ww, expected='ops-limit ParserError', observed=f'{out} {v!r}'[:200]))
            continue
        if entered != N:
            res.violation(f'entries:{label}', 'the ops-limit error was not raised at the N-th operation',
                          dict(ww, expected=f'{N} node evaluations started', observed=f'{entered}'))
        if log != want_log:
            res.violation(f'effects:{label}', 'the effects of the aborted run are not the prefix of the unbounded run before the N-th operation',
                          dict(ww, expected=repr(want_log), observed=repr(log)))



# ------------------------------------------------------------------ language-level effects of aborted runs
ABORT_EXTRA = [
    'x = [1]; push(x, 2); push(l, 3); x[0] = 9; d["k"] = x; del d["x"]; n += 1; l',
    'q = v => [push(l, v), v][1]; map([7, 8, 9], q); l',
    'a = 1; b = [a, a]; c = {"k": b}; c["k"][0] += 1; b[1] -= 1; [a, b, c]',
    'g = v => v + n; n = 5; r = map(l, g); n = 6; r2 = filter(l, v => v > n); [r, r2]',
    'w = k => 0 if k < 1 else [push(l, k), w(k - 1)][1]; w(3); l',
    'x = l; push(x, 1); y = x; pop(y); insert(l, 0, 4); remove(l, 4); [x, y, l]',
    's += "a"; s += "b"; ls = split(s, "l"); m -= 1; [s, ls, m]',
    'reduce([1, 2, 3], (acc, v) => [push(l, acc), acc + v][1]); sorted(l, v => 0 - v); l',
]


def abort_effects(res, tpl):
    """Every abort point of one statement template: the outcome class and the host names mapping left behind by a run aborted at its N-th
    operation must be those the reference interpreter leaves when it stops at its N-th operation (language-level effects - assignments,
    container writes on host objects - are host-visible effects just like host calls)."""
    api = snapshot.api()
    hs = c07.holes(tpl)
    pools = [c07.REDUCED.get(h, c07.LEAVES.get(h, []))[:2] if h != 'E' else ['2', 'l'] for h in hs]
    for vals in c07.product(pools):
        text = c07.fill(tpl, vals)
        m = refparse.parse(text)
        if m[0] != 'ok':
            continue
        for hname, spec in c07.host_specs():
            def model(budget):
                mn = {k: c07.build_model(v) for k, v in spec.items()}
                mach = M.Machine(mn, budget=budget, known_builtins=list(api.FUNCTIONS))
                try:
                    mach.run(m[1])
                    o = 'ok'
                except M.Undefined:
                    return None
                except M.LimitErr:
                    o = 'limit'
                except M.PErr:
                    o = 'PErr'
                except M.OtherErr:
                    o = 'OtherErr'
                except (RecursionError, ZeroDivisionError, OverflowError):
                    return None
                return o, c07.canon_model({k: v for k, v in mn.items() if not isinstance(v, (M.Closure, M.Builtin))}), mach.ops
            base = model(None)
            if base is None or base[2] > 400:
                res.count('abort_undefined_by_model')
                continue
            res.count('abort_programs')
            prefix_states = []          # the names mapping before the 1st, 2nd, ... N-th operation of the reference run
            for N in range(1, base[2] + 2):
                want = model(N)
                if want is None:
                    continue
                if want[1] not in prefix_states:
                    prefix_states.append(want[1])
                rn = {k: c07.build_real(v) for k, v in spec.items()}
                try:
                    parser().eval(text, rn, max_ops_evaluated=N)
                    o = 'ok'
                except api.OpsLimit:
                    o = 'limit'
                except api.ParserError:
                    o = 'PErr'
                except Exception:  # noqa
                    o = 'OtherErr'
                res.count('evals')
                res.count('abort_points')
                got = c07.canon_real({k: v for k, v in rn.items() if not callable(v)})
                w = {'program': text, 'host_names': hname, 'budget': N, 'K': base[2], 'abort_effects': True}
                res.outcome(f'abort:{c07.site_of(tpl)}:{want[0]}')
                if o != want[0]:
                    res.violation(f'abort-outcome:{c07.site_of(tpl)}:{want[0]}->{o}', 'a run under budget N ends differently than the '
                                  'reference semantics stopped at the N-th operation', dict(w, expected=want[0], observed=o))
                    break
                if got == want[1]:
                    res.count('abort_points_all_earlier_effects_present')
                elif got not in prefix_states:
                    # the statement asks for a prefix of the unbounded run's effects: a state the reference run passes through before its
                    # N-th operation (an implementation that rolls everything back is within the statement; one that lets the N-th or a
                    # later operation take effect, or keeps some effects and drops earlier ones, is not)
                    res.violation(f'abort-effects:{c07.site_of(tpl)}', 'the host names mapping left behind by a run aborted at its N-th operation is not '
                                  'a state the reference semantics pass through before the N-th operation (an effect at / after the abort, or an '
                                  'earlier effect lost while a later one was kept)',
                                  dict(w, expected='one of: ' + repr(prefix_states[::-1])[:400], observed=repr(got)[:400]))
                    break


# ------------------------------------------------------------------ nested eval calls: each judged on its own budget, whatever the outer call has left

NESTED_OUTER = ['t(1); inner(); t(2)', 'q = v => inner() + v; map(l, q)', 'x = 1 + 2 + 3 + 4 + 5 + 6; inner(); x', 'swallow(v => inner() + u_undefined, 1); inner()']
NESTED_INNER = ['1 + 2 + 3 + 4 + 5 + 6 + 7 + 8', 'map(l, v => v + 1) | len', 'w = k => 0 if k < 1 else w(k - 1) + 1; w(4)', 'f1 = v => v; f1(1)']


def nested_budgets(res):
    """An eval call made by a host callback while another eval call is running: for EVERY budget M of the outer call and EVERY budget N of the
    nested one, the nested call ends exactly as the same call made stand-alone (same program, equal names, same N)."""
    api = snapshot.api()
    D = api.Decimal

    def fresh():
        return {'l': [D(1), D(2), D(3)], 'n': D(3)}

    def alone(src, N):
        try:
            return ('ok', _plain(parser().eval(src, fresh(), max_ops_evaluated=N)))
        except api.OpsLimit:
            return ('limit',)
        except Exception as e:  # noqa
            return ('err', type(e).__name__)
    for inner_src in NESTED_INNER:
        cnt = Count()
        with opwrap.traced(cnt):
            parser().eval(inner_src, fresh(), max_ops_evaluated=10 ** 6)
        Kn = cnt.entered
        want = {N: alone(inner_src, N) for N in range(1, Kn + 3)}
        for outer_src in NESTED_OUTER:
            seen = []
            budget = [None]

            def inner():
                r = alone(inner_src, budget[0])
                seen.append(r)
                return D(0)
            log = []
            cnt0 = Count()
            names = host_names(log, cnt0)
            names['inner'] = inner
            budget[0] = Kn + 2
            try:
                with opwrap.traced(cnt0):
                    parser().eval(outer_src, names, max_ops_evaluated=10 ** 6)
            except Exception:  # noqa
                pass
            Ko = cnt0.entered          # counts the nested nodes too: an upper bound for the interesting outer budgets
            res.count('programs')
            for M in list(range(1, Ko + 3)) + [10 ** 6]:
                for N in range(1, Kn + 3):
                    del seen[:]
                    budget[0] = N
                    names = host_names([], Count())
                    names['inner'] = inner
                    try:
                        parser().eval(outer_src, names, max_ops_evaluated=M)
                    except Exception:  # noqa
                        pass
                    res.count('evals')
                    res.count('nested_pairs')
                    for r in seen:
                        res.outcome(f'nested:{r[0]}')
                        if r != want[N]:
                            res.violation(f'nested-eval-not-judged-on-own-budget:{want[N][0]}->{r[0]}', 'an eval call made from a host callback while an outer '
                                          'eval call is running does not end as the same call does stand-alone (its outcome depends on the outer call\'s budget)',
                                          {'outer_program': outer_src, 'outer_budget': M, 'nested_program': inner_src, 'nested_budget': N, 'K_nested': Kn,
                                           'expected': repr(want[N])[:200], 'observed': repr(r)[:200]})
                            return


# ------------------------------------------------------------------ histories

HIST_CALLS = ['ax9 + 1', 'nested_safe("u_undefined + 1"); f(1)', 'f = v => v + 1; nested_safe("1 / 0"); map(l, f)', 'f = v => v + 1; nested("f(1)")', 'h9 = v => t(v); nested("map(l, h9) | len") + h9(1)', 'nested("1 + 1"); f(1)', 'nested("f(1)") + f(2)', 'f = v => v + 1', 'f = v => t(v) + t(v) + v', 'f = v => map(l, w => w + v)', 'f(1)', 'f(2) + f(3)', 'map(l, f)',
              'n', 'g9 = f; g9(1)', 'apply(f, 1)', 'sorted(l, f)']


def run_hist_call(res, hist, budgets):
    """Replay hist (list of programs) on one shared names mapping; call j uses budgets[j] (None = unbounded).
    Returns per-call (outcome, entries)."""
    api = snapshot.api()
    log = []
    cnts = []
    cur = [None]

    class Proxy:
        @property
        def entered(self):
            return cur[0].entered if cur[0] else 0
    names = host_names(log, Proxy())

    def nested(src):
        # a host callback that evaluates: the nodes of that evaluation (and every lambda body it drives) belong to ITS budget
        c = cur[0]
        c.frames.append([None])
        try:
            return parser().eval(src, names, max_ops_evaluated=50)
        finally:
            c.frames.pop()
    names['nested'] = nested

    def nested_safe(src):
        try:
            return nested(src)
        except Exception:  # noqa
            return None
    names['nested_safe'] = nested_safe
    outs = []
    earlier_states = []
    for prog, bud in zip(hist, budgets):
        cnt = Count()
        cur[0] = cnt
        try:
            kw = {}
            if 'ax9' in prog:
                # a tree bound through ast_names is evaluated directly by eval(): lambdas it calls belong to THIS call too
                kw['ast_names'] = {'ax9': parser().parse('f(1) + f(2)')}
            with opwrap.traced(cnt):
                parser().eval(prog, names, max_ops_evaluated=(10 ** 9 if bud is None else bud), **kw)
            o = 'ok'
        except api.OpsLimit:
            o = 'limit'
        except Exception as e:  # noqa
            o = 'err:' + type(e).__name__
        stale = [st for st in cnt.states if any(st is e for e in earlier_states)]
        earlier_states.extend(cnt.states)
        outs.append((o, cnt.entered, bool(stale), cnt.foreign))
        res.count('evals')
    return outs


# ------------------------------------------------------------------ two threads (all interleavings at host-callback granularity)

THREAD_PROGRAMS = [
    # (program, budget) ; y() is a host callback = the only scheduling point (one thread runs at a time, baton passing)
    ('f = v => v + 1; y(); r = map(l, f) | len; y(); f(r)', 10 ** 6),
    ('g = v => v * 2; y(); map(l, g) | len', 30),            # needs ~65 operations: must end in the ops-limit error under every schedule
    ('h = v => t(v); y(); h(1); y(); h(2); y(); h(3)', 10 ** 6),
    ('q = v => t(v) + t(v); y(); map(l, q) | len', 25),
]


class ThreadWatch:
    """Tracer for the two-thread runs: per thread, the VM state of its eval and the nodes evaluated under a different one."""

    def __init__(self):
        self.state = {}
        self.entered = {}
        self.foreign = {}

    def enter(self, node, state):
        tid = threading.get_ident()
        self.entered[tid] = self.entered.get(tid, 0) + 1
        if tid not in self.state:
            self.state[tid] = state
        elif self.state[tid] is not state:
            self.foreign[tid] = self.foreign.get(tid, 0) + 1

    def leave(self, node, value):
        pass

    def fail(self, node, exc):
        pass


def run_threads(progs, schedule):
    """Run progs (one per thread, own parser and names each) under `schedule` (sequence of thread indices: who runs the next
    segment). Returns per thread (outcome, value, entered, foreign, log)."""
    api = snapshot.api()
    n = len(progs)
    go = [threading.Semaphore(0) for _ in range(n)]
    back = threading.Semaphore(0)
    done = [False] * n
    out = [None] * n
    logs = [[] for _ in range(n)]
    tids = [None] * n
    watch = ThreadWatch()

    def body(i):
        go[i].acquire()
        tids[i] = threading.get_ident()
        text, budget = progs[i]
        D = api.Decimal

        def y():
            back.release()
            go[i].acquire()
            return D(0)

        def t(v):
            logs[i].append(int(v))
            return v
        names = {'l': [D(k) for k in range(20)], 'y': y, 't': t}
        try:
            v = api.new_parser().eval(text, names, max_ops_evaluated=budget)
            out[i] = ('ok', _plain(v))
        except api.OpsLimit:
            out[i] = ('limit', None)
        except Exception as e:  # noqa
            out[i] = ('err:' + type(e).__name__, None)
        done[i] = True
        back.release()

    ths = [threading.Thread(target=body, args=(i,), daemon=True) for i in range(n)]
    for th in ths:
        th.start()
    opwrap.Hub.cb = watch
    try:
        sched = list(schedule)
        while not all(done):
            i = sched.pop(0) if sched else next(k for k in range(n) if not done[k])
            if done[i]:
                continue
            go[i].release()
            if not back.acquire(timeout=20):
                out[i] = ('hang', None)
                break
    finally:
        opwrap.Hub.cb = None
    return [(out[i][0] if out[i] else 'hang', out[i][1] if out[i] else None, watch.entered.get(tids[i], 0), watch.foreign.get(tids[i], 0), logs[i])
            for i in range(n)]


def interleavings(counts):
    """All sequences containing index i exactly counts[i] times."""
    if not any(counts):
        yield ()
        return
    for i, c in enumerate(counts):
        if c:
            rest = list(counts)
            rest[i] -= 1
            for tail in interleavings(rest):
                yield (i,) + tail


def thread_check(res):
    pairs = [(0, 1), (2, 3), (0, 3), (1, 3), (1, 1)]
    for a, b in pairs:
        progs = [THREAD_PROGRAMS[a], THREAD_PROGRAMS[b]]
        alone = [run_threads([p], [0] * 10)[0] for p in progs]
        segs = [p[0].count('y()') + 1 for p in progs]
        for sched in interleavings(segs):
            got = run_threads(progs, sched)
            res.count('thread_schedules')
            for i in (0, 1):
                o, v, entered, foreign, log = got[i]
                w = {'programs': [p[0] for p in progs], 'budgets': [p[1] for p in progs], 'schedule': list(sched), 'thread': i}
                if foreign:
                    res.violation('threads:foreign-vm-state', 'with two threads evaluating, node evaluations of one call were charged to the VM '
                                  'state of the call made by the other thread', dict(w, expected='own VM state', observed=f'{foreign} node evaluations'))
                    return
                if (o, v, entered, log) != (alone[i][0], alone[i][1], alone[i][2], alone[i][4]):
                    res.violation('threads:outcome-depends-on-other-thread', 'an eval call interleaved with a call on another thread (own parser, own '
                                  'names) behaves differently than alone', dict(w, expected=repr(alone[i][:3]), observed=repr(got[i][:3])))
                    return
            res.outcome('threads:%s/%s' % (got[0][0], got[1][0]))


def work(task):
    res = runner.Result()
    opwrap.install()
    sys.setrecursionlimit(6000)          # recursion 130 deep under the tracer
    if task[0] == 'threads':
        thread_check(res)
        return res
    if task[0] == 'nested-budgets':
        nested_budgets(res)
        return res
    kind = task[0]
    if kind == 'abort':
        for tpl in task[1]:
            abort_effects(res, tpl)
        return res
    if kind == 'driver':
        _, label, text, spec, sw = task
        sweep(res, label, text, spec, sw)
        sweep(res, label + ':parse-cache', text, spec, sw, cached=True)
        res.sample({'program': text, 'budgets': 'every N in 1..K+2 and 10^6, 2^40'}, cap=1)
    elif kind == 'shape':
        _, label, tree, nested = task
        for v in c09.variants(tree, nested):
            pt = c09.number_probes(v, [0])
            text = c09.render_probes(pt)
            sweep(res, 'shape:' + label, text, None, False)
    else:
        _, hists = task
        for hist in hists:
            base = run_hist_call(res, hist, [None] * len(hist))
            res.count('histories')
            if any(o[2] for o in base):
                res.violation('history:stale-vm-state', 'node evaluations of a call were charged to the VM state of an EARLIER eval call',
                              {'history': hist, 'budget_of_last_call': None, 'K_of_last_call': None, 'expected': 'ok',
                               'observed': 'a VM state created by an earlier call was used again'})
                continue
            if any(o[3] for o in base):
                res.violation('history:foreign-vm-state', 'node evaluations were charged to a VM state other than the one of the innermost '
                              'eval call in progress (a nested eval made by a host callback must be judged on its own budget)',
                              {'history': hist, 'budget_of_last_call': None, 'K_of_last_call': None, 'expected': 'ok',
                               'observed': '%d node evaluations under a foreign VM state' % sum(o[3] for o in base)})
                continue
            if any('nested(' in h or 'nested_safe(' in h for h in hist):
                continue        # K would mix the nodes of the nested call (its own budget) with the outer ones
            if any(o[0].startswith('err') for o in base[:-1]):
                continue
            j = len(hist) - 1
            Kj = base[j][1]
            if base[j][0] != 'ok':
                continue
            res.outcome(f'hist:{hist[j]}:K={Kj}')
            for N in (Kj - 1, Kj, Kj + 1, max(1, Kj // 2)):
                if N < 1:
                    continue
                outs = run_hist_call(res, hist, [None] * j + [N])
                o, entered = outs[j][0], outs[j][1]
                want = 'ok' if N > Kj else 'limit'
                if o != want:
                    defined_earlier = any(h.startswith('f =') for h in hist[:j]) and ('f' in hist[j] or 'g9' in hist[j])
                    res.violation(f'history:{"cross-eval-lambda" if defined_earlier else "other"}:{want}',
                                  'a call in a sequence sharing one names mapping is not judged on its own budget',
                                  {'history': hist, 'budget_of_last_call': N, 'K_of_last_call': Kj,
                                   'expected': want, 'observed': o})
    return res


def main(tier, seed, t0):
    b = BOUNDS[tier]
    snapshot.api()
    tasks = [('driver', l, t, s, sw) for l, t, s, sw in DRIVERS]
    for label, tree in c09.shapes():
        tasks.append(('shape', label, tree, b['SHAPES'] == 'nested'))
    hists = []
    for n in range(1, b['HIST'] + 1):
        hists += [list(h) for h in itertools.product(HIST_CALLS, repeat=n)]
    step = max(1, len(hists) // 48)
    tasks += [('hist', hists[i:i + step]) for i in range(0, len(hists), step)]
    tasks.append(('threads',))
    tasks.append(('nested-budgets',))
    tpls = [t for t in c07.STATEMENTS if t != '{E}'] + ABORT_EXTRA
    tasks += [('abort', tpls[i::24]) for i in range(24)]
    tasks = runner.rotate(tasks, seed)
    total = runner.run_tasks(work, tasks)
    n = total.n
    cov = {
        'states': n.get('programs', 0) + n.get('histories', 0),
        'transitions': n.get('evals', 0),
        'traces_validated_against_impl': n.get('evals', 0),
        'evaluations': n.get('evals', 0),
        'distinct_nontrivial': len(total.outcomes),
        'rule': '%d hand-written drivers, each on a parser without and with a parse cache (direct / recursive / map / filter / reduce / sorted-key / host callback / swallowing callback / '
                'ast_names lambdas / NoOp / statements / slices / lazy operators) and every construct shape of C09 (%s fillers), each under '
                'EVERY budget 1..K+2 plus two large ones; all %d sequences of <= %d eval calls over a shared names mapping from a %d-call '
                'alphabet, the last call under budgets K-1, K, K+1, K/2; two threads, each evaluating on its own parser and names: all %d '
                'interleavings of 5 program pairs at host-callback granularity (baton passing), each call compared with its stand-alone run '
                'and every node evaluation required to use the VM state of its own thread\'s call. distinct_nontrivial = distinct (program, K).'
                % (len(DRIVERS), b['SHAPES'], len(hists), b['HIST'], len(HIST_CALLS), n.get('thread_schedules', 0)),
        'exhaustive': True,
        'bounds': b,
    }
    return runner.finish(ID, tier, seed, total, cov, [
        'node evaluations are counted from outside by wrapping the eval method of every Op subclass',
        'effects are host probe calls, time-stamped with the number of node evaluations started so far',
    ], t0)


def replay(w):
    res = runner.Result()
    opwrap.install()
    if 'schedule' in w:
        progs = list(zip(w['programs'], w['budgets']))
        got = run_threads(progs, w['schedule'])
        alone = [run_threads([p], [0] * 10)[0] for p in progs]
        bad = any(g[3] for g in got) or any((g[0], g[1], g[2], g[4]) != (a[0], a[1], a[2], a[4]) for g, a in zip(got, alone))
        return ('REPRODUCED' if bad else 'HOLDS') + f"\n schedule={w['schedule']} -> {[g[:4] for g in got]!r}\n alone -> {[a[:4] for a in alone]!r}"
    if 'nested_program' in w:
        nested_budgets(res)
        return ('REPRODUCED' if res.viol else 'HOLDS') + "\n " + repr({k: v[1][:1] for k, v in res.viol.items()})[:800]
    if w.get('abort_effects'):
        abort_effects(res, w['program'])          # the program text has no holes left: exactly this program, every abort point
        return ('REPRODUCED' if res.viol else 'HOLDS') + f"\n {w['program']!r}\n " + repr({k: v[1][:1] for k, v in res.viol.items()})[:800]
    if 'history' in w:
        if w.get('budget_of_last_call') is None and w.get('expected') == 'ok':
            base = run_hist_call(res, w['history'], [None] * len(w['history']))
            bad = any(o[2] or o[3] for o in base)
            return ('REPRODUCED' if bad else 'HOLDS') + f"\n history={w['history']} -> {base!r}"
        outs = run_hist_call(res, w['history'], [None] * (len(w['history']) - 1) + [w['budget_of_last_call']])
        bad = outs[-1][0] != w['expected']
        return ('REPRODUCED' if bad else 'HOLDS') + f"\n history={w['history']} budget={w['budget_of_last_call']} -> {outs!r}"
    spec = eval(w['ast_names']) if w.get('ast_names') else None   # noqa - written by this module
    sweep(res, 'replay', w['program'], spec, 'swallow' in w['program'])
    return ('REPRODUCED' if res.viol else 'HOLDS') + f"\n {w['program']!r}\n " + repr({k: v[1][:1] for k, v in res.viol.items()})[:600]
