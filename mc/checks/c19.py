"""C19 - random builtins stay within their documented range.

E5: the random source of smartquery.functions is replaced (from outside, in the checker
process) by a random.Random subclass whose random() and getrandbits(k) take their answers from
the explorer; randint / choice / shuffle all reduce to those two.  Every answer sequence is
explored (stateless DFS over choice points, deviation = non-default answer) up to a horizon
of choice points; for wide ranges the answer alphabet is the boundary set.
"""
import random as _random
from fractions import Fraction
import decimal

from ..core import runner, snapshot

ID = 'C19'

BOUNDS = {
    'quick': dict(HORIZON=6, MAXLIST=4, FULLBITS=4),
    'thorough': dict(HORIZON=10, MAXLIST=6, FULLBITS=6),
}

FLOATS = [0.0, 5e-324, 0.5, 1 - 2 ** -53, 0.1, 2 ** -53]


class Scripted(_random.Random):
    """Random source whose primitive answers come from a script; records choice points."""

    def __init__(self, script, fullbits, horizon):
        _random.Random.__init__(self, 0)
        self.script = list(script)
        self.trace = []          # (kind, k, answer, alternatives)
        self.fullbits = fullbits
        self.horizon = horizon
        self.hint_n = None

    def _alts_bits(self, k):
        if k <= self.fullbits:
            return list(range(2 ** k))
        top = 2 ** k - 1
        c = [0, 1, 2, top, top - 1, top // 2, top // 2 + 1]
        return sorted(set(x for x in c if 0 <= x <= top))

    def getrandbits(self, k):
        i = len(self.trace)
        alts = self._alts_bits(k)
        if i < len(self.script):
            a = self.script[i]
        elif i >= self.horizon:
            a = 0
            alts = [0]
        else:
            a = alts[0]
        self.trace.append(('bits', k, a, alts))
        return a

    def _randbelow(self, n):
        # the primitive behind randint / randrange / choice / shuffle / sample: every admissible answer 0 .. n-1 is a possible one;
        # explored in full for small n, at both ends and in the middle otherwise
        i = len(self.trace)
        if n <= 2 ** self.fullbits:
            alts = list(range(n))
        else:
            alts = sorted(set(x for x in (0, 1, 2, n - 1, n - 2, n // 2, n // 2 + 1) if 0 <= x < n))
        if i < len(self.script):
            a = self.script[i]
            if not (0 <= a < n):
                a = a % n
        elif i >= self.horizon:
            a = 0
            alts = [0]
        else:
            a = alts[0]
        self.trace.append(('below', n, a, alts))
        return a

    def random(self):
        i = len(self.trace)
        alts = FLOATS
        if i < len(self.script):
            a = self.script[i]
        elif i >= self.horizon:
            a = 0.0
            alts = [0.0]
        else:
            a = alts[0]
        self.trace.append(('float', 0, a, alts))
        return a

    def seed(self, *a, **k):
        pass


def explore(run, fullbits, horizon, on_exec):
    """Stateless DFS over answer sequences (the idiom of the brief)."""
    stack = [[]]
    n = 0
    while stack:
        prefix = stack.pop()
        src = Scripted(prefix, fullbits, horizon)
        out = run(src)
        n += 1
        on_exec(prefix, src, out)
        for i in range(len(prefix), len(src.trace)):
            kind, k, a, alts = src.trace[i]
            base = [t[2] for t in src.trace[:i]]
            for alt in alts:
                if alt != a:
                    stack.append(base + [alt])
    return n


_parser = [None]


def _reset():
    _parser[0] = None


runner.TASK_INIT.append(_reset)


def parser():
    if _parser[0] is None:
        _parser[0] = snapshot.api().new_parser()
    return _parser[0]


def with_source(src, text, names):
    api = snapshot.api()
    saved = api.functions.random
    api.functions.random = src
    try:
        try:
            return ('val', parser().eval(text, names, max_ops_evaluated=1000))
        except Exception as e:  # noqa
            return ('exc', e)
    finally:
        api.functions.random = saved


def as_int(v):
    if isinstance(v, bool):
        return None
    if isinstance(v, (int, decimal.Decimal)):
        f = Fraction(v)
        if f.denominator == 1:
            return int(f)
    return None


def numeric_variants(a, b):
    """(label, program text, names) for one pair of integer bounds in every host-suppliable type."""
    api = snapshot.api()
    D = api.Decimal
    out = [('literal', f'rand({_lit(a)}, {_lit(b)})', {}),
           ('host-decimal', 'rand(a, b)', {'a': D(a), 'b': D(b)}),
           ('host-int', 'rand(a, b)', {'a': a, 'b': b}),
           ('method', 'a.rand(b)', {'a': a, 'b': D(b)}),
           ('host-decimal-exp', 'rand(a, b)', {'a': (D(a).normalize() if abs(a) < 10 ** 27 else D(a)) if a else D('0E+3'), 'b': D(b)})]
    if a in (0, 1) and b in (0, 1):
        out.append(('host-bool', 'rand(a, b)', {'a': bool(a), 'b': bool(b)}))
    return out


def _lit(n):
    return str(n) if n >= 0 else f'-{-n}'


def work(task):
    res = runner.Result()
    kind = task[0]
    b = task[-1]
    if kind == 'range':
        _, a, bb, vi, _b = task
        for label, text, names in numeric_variants(a, bb)[vi:vi + 1]:
            seen = set()

            def on_exec(prefix, src, out, a=a, bb=bb, text=text, label=label, seen=seen):
                res.count('executions')
                if out[0] == 'exc':
                    res.violation(f'rand-range:raises:{type(out[1]).__name__}:{label}', 'rand(a, b) raised for integer-valued bounds a <= b',
                                  {'program': text, 'a': str(a), 'b': str(bb), 'variant': label, 'answers': [str(x) for x in prefix],
                                   'expected': f'an integer in [{a}, {bb}]', 'observed': repr(out[1])})
                    return
                n = as_int(out[1])
                if n is None or not (a <= n <= bb):
                    wide = 'wide' if bb - a > 100 or abs(a) > 10 ** 20 else 'small'
                    zero = ':a=b=0' if a == 0 and bb == 0 else ''
                    res.violation(f'rand-range:out-of-range:{wide}{zero}', 'rand(a, b) returned a value that is not an integer in [a, b]',
                                  {'program': text, 'a': str(a), 'b': str(bb), 'variant': label, 'answers': [str(x) for x in prefix],
                                   'expected': f'an integer in [{a}, {bb}]', 'observed': repr(out[1])})
                    return
                seen.add(n)
            explore(lambda src: with_source(src, text, dict(names)), b['FULLBITS'], b['HORIZON'], on_exec)
            res.count('inputs')
            if bb - a < 2 ** b['FULLBITS'] and abs(a) < 10 ** 6:
                res.outcome(f'range:{a}:{bb}:{sorted(seen)}')
                if seen != set(range(a, bb + 1)) and not res.viol:
                    res.violation('rand-range:not-all-values', 'some value of [a, b] is never returned under any answer of the random source',
                                  {'program': text, 'a': str(a), 'b': str(bb), 'variant': label, 'answers': [],
                                   'expected': str(list(range(a, bb + 1))), 'observed': str(sorted(seen))})
    elif kind == 'unit':
        seen = set()

        def on_exec(prefix, src, out):
            res.count('executions')
            ok = out[0] == 'val' and isinstance(out[1], (int, float, decimal.Decimal)) and not isinstance(out[1], bool) \
                and 0 <= Fraction(out[1]) < 1
            if not ok:
                res.violation('rand-unit', 'rand() returned something outside [0, 1)',
                              {'program': 'rand()', 'answers': [str(x) for x in prefix], 'expected': 'a number in [0, 1)', 'observed': repr(out[1])})
            else:
                seen.add(str(out[1]))
        explore(lambda src: with_source(src, 'rand()', {}), b['FULLBITS'], b['HORIZON'], on_exec)
        res.count('inputs')
        res.outcome('unit:' + str(len(seen)))
    elif kind == 'big-list':
        # scale probe: host lists at and beyond the container cap (a host may bind any list; the cap limits what programs BUILD)
        api = snapshot.api()
        for n in (9999, 10000, 10001, 12000):
            for which, text in (('choice', 'rand(l)'), ('choice-method', 'l | rand'), ('shuffle', 'shuffle(l)'), ('shuffle-pipe', 'l | shuffle'), ('shuffle-len', 'l.shuffle() | len')):
                original = [api.Decimal(i) for i in range(n)]
                lst = list(original)
                out = with_source(Scripted([], b['FULLBITS'], 0), text, {'l': lst})
                res.count('executions')
                res.count('inputs')
                w = {'program': text, 'list': [f'{n} distinct numbers'], 'answers': [], 'big_list': n}
                if out[0] == 'exc':
                    res.violation(f'{which}:raises:{type(out[1]).__name__}:long-list', f'{text} raised for a host list of {n} elements',
                                  dict(w, expected='a result', observed=repr(out[1])[:200]))
                    continue
                v = out[1]
                if len(lst) != n or any(x is not y for x, y in zip(lst, original)):
                    res.violation(f'{which}:argument-changed:long-list', f'{text} changed its argument', dict(w, expected='unchanged', observed=f'{len(lst)} elements'))
                if which.startswith('choice'):
                    ok = any(v is x for x in original)
                elif which == 'shuffle-len':
                    ok = v == n
                else:
                    ok = isinstance(v, list) and v is not lst and sorted(map(id, v)) == sorted(map(id, original))
                if not ok:
                    res.violation(f'{which}:wrong-result:long-list', f'{text} on a host list of {n} elements did not return an element / a permutation in a new list',
                                  dict(w, expected='an element / a permutation', observed=repr(v)[:120]))
                res.outcome(f'big:{which}:{n}')
    elif kind == 'list':
        _, items, _b = task
        api = snapshot.api()
        for which, text in (('choice', 'rand(l)'), ('choice-method', 'l | rand'), ('shuffle', 'shuffle(l)'), ('shuffle-pipe', 'l | shuffle')):
            seen = set()

            def on_exec(prefix, src, out, which=which, text=text, seen=seen):
                res.count('executions')
                lst, original = on_exec.cur
                if out[0] == 'exc':
                    if not lst and which.startswith('choice'):
                        return      # rand([]) has no element to return
                    res.violation(f'{which}:raises:{type(out[1]).__name__}', f'{text} raised',
                                  {'program': text, 'list': [repr(x) for x in original], 'answers': [str(x) for x in prefix],
                                   'expected': 'a result', 'observed': repr(out[1])})
                    return
                v = out[1]
                if lst != original or any(x is not y for x, y in zip(lst, original)):
                    res.violation(f'{which}:argument-changed', f'{text} changed its argument',
                                  {'program': text, 'list': [repr(x) for x in original], 'answers': [str(x) for x in prefix],
                                   'expected': repr(original), 'observed': repr(lst)})
                if which.startswith('choice'):
                    if not any(v is x for x in original):
                        res.violation('choice:not-an-element', 'rand(list) returned something that is not an element of the list',
                                      {'program': text, 'list': [repr(x) for x in original], 'answers': [str(x) for x in prefix],
                                       'expected': 'an element', 'observed': repr(v)})
                    else:
                        seen.add([i for i, x in enumerate(original) if x is v][0])
                else:
                    ok = isinstance(v, list) and len(v) == len(original) and \
                        sorted(map(id, v)) == sorted(map(id, original))
                    if not ok:
                        res.violation('shuffle:not-a-permutation', 'shuffle(list) did not return a permutation of the list',
                                      {'program': text, 'list': [repr(x) for x in original], 'answers': [str(x) for x in prefix],
                                       'expected': 'a permutation', 'observed': repr(v)})
                    elif v is lst:
                        res.violation(f'shuffle:same-object:len{min(len(original), 2)}', 'shuffle(list) returned its argument instead of a new list',
                                      {'program': text, 'list': [repr(x) for x in original], 'answers': [str(x) for x in prefix],
                                       'expected': 'a new list', 'observed': 'the argument object'})
                    else:
                        seen.add(tuple(original.index(x) if False else [i for i, y in enumerate(original) if y is x][0] for x in v))

            def run(src):
                original = [api.Decimal(x) if isinstance(x, int) and not isinstance(x, bool) else x for x in items]
                # distinct objects even for equal values, so identity tells elements apart (None / bools are singletons)
                original = [api.Decimal(str(x)) if isinstance(x, decimal.Decimal) else (x if x is None or isinstance(x, bool)
                            else ''.join([str(x), '!'])) for x in original]
                lst = list(original)
                on_exec.cur = (lst, original)
                return with_source(src, text, {'l': lst})
            explore(run, b['FULLBITS'], b['HORIZON'], on_exec)
            res.count('inputs')
            n = len(items)
            res.outcome(f'{which}:{items}:{len(seen)}')
            if not res.viol and n > 0:
                import math
                want = n if which.startswith('choice') else math.factorial(n)
                if len(seen) != want:
                    res.violation(f'{which}:not-all-outcomes', f'{text}: not every element / permutation can be returned',
                                  {'program': text, 'list': [repr(x) for x in items], 'answers': [],
                                   'expected': f'{want} distinct outcomes', 'observed': f'{len(seen)}'})
    return res


def main(tier, seed, t0):
    b = BOUNDS[tier]
    snapshot.api()
    tasks = [('unit', b), ('big-list', b)]
    for a in range(-3, 5):
        for bb in range(a, 5):
            for vi in range(6):
                tasks.append(('range', a, bb, vi, b))
    for a, bb in [(-10 ** 6, 10 ** 6), (0, 2 ** 64), (10 ** 28 + 1, 10 ** 28 + 1), (10 ** 30 - 3, 10 ** 30 - 1), (-10 ** 29 - 1, -10 ** 29 + 1),
                  (0, 10 ** 28), (10 ** 27, 10 ** 28 + 5), (7, 7), (-1, 100), (2 ** 63 - 1, 2 ** 63 + 1)]:
        for vi in range(6):
            tasks.append(('range', a, bb, vi, b))
    elems = [1, 2, 1, 3]
    for n in range(0, b['MAXLIST'] + 1):
        tasks.append(('list', elems[:n], b))
    tasks.append(('list', ['x', 'x', 'y'][:b['MAXLIST']], b))
    tasks.append(('list', [None], b))
    tasks.append(('list', [1, None, 'x'][:b['MAXLIST']], b))
    tasks.append(('list', [0, '', False][:b['MAXLIST']], b))
    tasks = runner.rotate(tasks, seed)
    total = runner.run_tasks(work, tasks)
    total.sample({'program': 'rand(a, b)', 'a': -3, 'b': 4, 'answer_script_example': [7, 7, 3]})
    total.sample({'program': 'shuffle(l)', 'list': [1, 2, 1], 'answer_script_example': [2, 0]})
    n = total.n
    cov = {
        'states': n.get('inputs', 0),
        'transitions': n.get('executions', 0),
        'traces_validated_against_impl': n.get('executions', 0),
        'evaluations': n.get('executions', 0),
        'distinct_nontrivial': len(total.outcomes),
        'rule': 'every answer sequence of the random source (getrandbits: all 2^k answers for k <= %d, boundary answers above; random(): '
                '%d floats incl. 0.0 and 1-2^-53) up to %d choice points per execution, for rand(), rand(a, b) with all -3 <= a <= b <= 4 '
                'and 10 wide / 29+-digit / 64-bit ranges in up to 6 numeric representations, rand(list) and shuffle(list) for lists of '
                'length 0..%d with duplicates. distinct_nontrivial = distinct (input, set of outcomes).'
                % (b['FULLBITS'], len(FLOATS), b['HORIZON'], b['MAXLIST']),
        'exhaustive': True,
        'bounds': b,
    }
    return runner.finish(ID, tier, seed, total, cov, [
        'randint / choice / shuffle of the stdlib reduce to getrandbits() and random() of the source object (CPython random.py)',
        'beyond the horizon the source answers 0 (accepts), which bounds rejection-sampling retries',
    ], t0)


def replay(w):
    api = snapshot.api()
    script = []
    for x in w.get('answers', []):
        script.append(float(x) if ('.' in x or 'e' in x) else int(x))
    src = Scripted(script, 64, len(script))
    if 'list' in w:
        return 'see witness; re-run: /venv/bin/python -m mc.run C19'
    names = {}
    if 'a' in w and 'rand(a, b)' in w['program'] or 'a.rand' in w.get('program', ''):
        a, b = int(w['a']), int(w['b'])
        for label, text, nm in numeric_variants(a, b):
            if label == w.get('variant'):
                names = nm
    out = with_source(src, w['program'], names)
    bad = out[0] == 'exc'
    if out[0] == 'val' and 'a' in w:
        n = as_int(out[1])
        bad = n is None or not (int(w['a']) <= n <= int(w['b']))
    return ('REPRODUCED' if bad else 'HOLDS') + f"\n {w['program']} with answers {w.get('answers')} -> {out!r}"
