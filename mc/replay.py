"""CLI:  /venv/bin/python -m mc.replay <replays/Cxx-....json>
Re-executes one recorded witness with plain calls on a fresh parser - no explorer involved."""
import importlib
import json
import sys


def main():
    path = sys.argv[1]
    with open(path) as f:
        rec = json.load(f)
    mod = importlib.import_module('mc.checks.' + rec['property'].lower())
    print(f"property {rec['property']}  signature {rec['signature']}\n{rec['what']}")
    out = mod.replay(rec['witness'])
    print(out)
    sys.exit(1 if out and out.startswith('REPRODUCED') else 0)


if __name__ == '__main__':
    main()
